//! compsim — the dynamic completion engine (C18): `clap_complete::engine::complete` and the
//! five shell adapters on one long-lived `&mut Command`, with adapter environment variables,
//! a fault-injecting sink, a scratch filesystem tree and caller-supplied completer callbacks
//! as the simulated seams.

use crate::bytes::B;
use crate::cmdsim::{full_argv, outcome_of, POut};
use crate::core::*;
use crate::ev;
use crate::faulty_writer::*;
use crate::gen::{gen_argv, gen_tree, GenCfg, TextKind};
use crate::rng::Rng;
use crate::spec::*;
use clap::error::ErrorKind;
use clap::Command;
use clap_complete::engine::CompletionCandidate;
use clap_complete::env::EnvCompleter;
use serde::{Deserialize, Serialize};
use std::ffi::OsString;
use std::os::unix::ffi::OsStrExt;
use std::path::PathBuf;

#[derive(Clone, Debug, Hash, Serialize, Deserialize, PartialEq)]
pub enum Word {
    Empty,
    Dash,
    DashDash,
    /// prefix of a real long spelling of the level: (which spelling, how many chars after `--`)
    LongPrefix(u8, u8),
    /// cluster of real value-less short flags of the level
    ShortCluster(Vec<u8>),
    /// prefix of a subcommand name of the level
    SubPrefix(u8, u8),
    /// cluster of real value-less short flags followed by a byte that is not UTF-8
    ShortClusterBadTail(Vec<u8>),
    /// `-x` where x is the short (or a visible short alias) of a value-taking option: what follows is its value
    ShortOptValue(u8),
}

#[derive(Clone, Debug, Hash, Serialize, Deserialize, PartialEq)]
pub struct IntentLine {
    /// (subcommand index among the level's children, which spelling) per level
    pub path: Vec<(u8, u8)>,
    /// completed tokens placed before the cursor word at the final level: indices into the level's named args
    pub before: Vec<u8>,
    /// positional values typed before descending at each path step (only used where the level has a
    /// multi-value positional and subcommand_precedence_over_arg, i.e. where the real parser still dispatches)
    #[serde(default)]
    pub pos_before: Vec<u8>,
    pub word: Word,
    /// address the level through the generated `help` subcommand (`prog help <path> <word>`): the tree below
    /// `help` mirrors the subcommands, hidden ones included
    #[serde(default)]
    pub via_help: bool,
}

#[derive(Clone, Debug, Hash, Serialize, Deserialize, PartialEq)]
pub enum Line {
    Soup { args: Vec<B>, index: u32 },
    Intent(IntentLine),
}

#[derive(Clone, Debug, Hash, Serialize, Deserialize, PartialEq, Default)]
pub struct AdapterEnv {
    pub index: Option<B>,
    pub ifs: Option<B>,
    pub comp_type: Option<B>,
    pub space: Option<B>,
}

#[derive(Clone, Debug, Hash, Serialize, Deserialize, PartialEq)]
pub enum COp {
    Complete(Line),
    Adapter { shell: u8, line: Line, env: AdapterEnv, plan: FaultPlan },
    Registration { shell: u8, plan: FaultPlan },
    TryComplete(Option<B>),
    Parse(Vec<B>),
}

#[derive(Clone, Copy, Debug, Hash, Serialize, Deserialize, PartialEq)]
pub enum CwdKind {
    None,
    Scratch,
    Missing,
    AFile,
}

#[derive(Clone, Debug, Hash, Serialize, Deserialize, PartialEq)]
pub struct CompSc {
    pub spec: CmdSpec,
    pub cwd: CwdKind,
    /// build the scratch directory tree (only needed when path hints are in play)
    pub with_fs: bool,
    pub ops: Vec<COp>,
}

pub struct CompSim;

// ------------------------------------------------------------------------------------------
// scratch filesystem

struct Scratch {
    root: PathBuf,
}

impl Scratch {
    fn create() -> Option<Scratch> {
        let base = std::env::current_exe().ok()?.parent()?.join("scratch");
        let root = base.join(format!("fs-{}", std::process::id()));
        let _ = std::fs::remove_dir_all(&root);
        std::fs::create_dir_all(&root).ok()?;
        let s = Scratch { root };
        s.populate();
        Some(s)
    }
    fn populate(&self) {
        use std::os::unix::ffi::OsStringExt;
        let r = &self.root;
        let _ = std::fs::write(r.join("plain.txt"), b"x");
        let _ = std::fs::write(r.join("val7"), b"x");
        let _ = std::fs::write(r.join(".dotfile"), b"x");
        let _ = std::fs::write(r.join("with space"), b"x");
        let _ = std::fs::write(r.join("new\nline"), b"x");
        let _ = std::fs::write(r.join("co:lon"), b"x");
        let _ = std::fs::write(r.join("back\\slash"), b"x");
        let _ = std::fs::write(r.join(OsString::from_vec(vec![b'b', b'a', b'd', 0xff, 0xfe])), b"x");
        let _ = std::fs::create_dir(r.join("dir"));
        let _ = std::fs::write(r.join("dir").join("inner"), b"x");
        let _ = std::fs::create_dir(r.join("empty-dir"));
        let _ = std::fs::create_dir(r.join(".hidden-dir"));
        let _ = std::os::unix::fs::symlink("does-not-exist", r.join("dangling"));
        let _ = std::os::unix::fs::symlink("loop-b", r.join("loop-a"));
        let _ = std::os::unix::fs::symlink("loop-a", r.join("loop-b"));
        let _ = std::os::unix::fs::symlink("dir", r.join("link-to-dir"));
        #[cfg(unix)]
        {
            use std::os::unix::fs::PermissionsExt;
            let _ = std::fs::write(r.join("exec.sh"), b"#!/bin/sh\n");
            let _ = std::fs::set_permissions(r.join("exec.sh"), std::fs::Permissions::from_mode(0o755));
        }
    }
}

/// One read-only scratch tree per worker process (created lazily, removed by `cleanup_scratch`).
static SCRATCH: std::sync::OnceLock<Option<Scratch>> = std::sync::OnceLock::new();

fn scratch() -> Option<&'static Scratch> {
    SCRATCH.get_or_init(Scratch::create).as_ref()
}

pub fn cleanup_scratch() {
    if let Some(Some(s)) = SCRATCH.get() {
        let _ = std::fs::remove_dir_all(&s.root);
    }
}

// ------------------------------------------------------------------------------------------
// level model

struct Entity {
    /// `arg::<id>` or `command::<name>`
    id: String,
    hidden: bool,
    /// visible spellings as the engine prints them (`--long`, `-s`, `name`)
    visible: Vec<String>,
    /// every spelling incl. hidden aliases
    all: Vec<String>,
    takes_value: bool,
}

fn level_entities(level: &CmdSpec, globals: &[&ArgSpec]) -> Vec<Entity> {
    let mut v = Vec::new();
    for a in level.args.iter().chain(globals.iter().copied()) {
        if a.is_positional() {
            continue;
        }
        let mut vis = Vec::new();
        let mut all = Vec::new();
        if let Some(l) = &a.long {
            vis.push(format!("--{l}"));
            vis.extend(a.visible_aliases.iter().map(|x| format!("--{x}")));
            all.extend(a.aliases.iter().map(|x| format!("--{x}")));
        } else {
            // visible aliases are spellings the parser accepts, whether or not the argument has a long of its own
            vis.extend(a.visible_aliases.iter().map(|x| format!("--{x}")));
            all.extend(a.aliases.iter().map(|x| format!("--{x}")));
        }
        if let Some(s) = a.short {
            vis.push(format!("-{s}"));
        }
        vis.extend(a.visible_short_aliases.iter().map(|x| format!("-{x}")));
        all.extend(a.short_aliases.iter().map(|x| format!("-{x}")));
        all.extend(vis.iter().cloned());
        v.push(Entity { id: format!("arg::{}", a.id), hidden: a.hide, visible: vis, all, takes_value: a.takes_values() });
    }
    for s in &level.subs {
        let mut vis = vec![s.name.clone()];
        vis.extend(s.visible_aliases.iter().cloned());
        let mut all = vis.clone();
        all.extend(s.aliases.iter().cloned());
        v.push(Entity { id: format!("command::{}", s.name), hidden: s.has(CmdSetting::Hide), visible: vis, all, takes_value: false });
    }
    v
}

struct Printed {
    args: Vec<OsString>,
    index: usize,
    level_path: Vec<usize>,
    word: String,
    /// the cursor word as bytes (differs from `word` only for words that are not UTF-8)
    word_bytes: Vec<u8>,
    /// number of tokens in front of the `before` list (binary name, path words, positional values)
    lead: usize,
}

fn resolve_level<'a>(spec: &'a CmdSpec, path: &[(u8, u8)]) -> (Vec<&'a CmdSpec>, Vec<String>) {
    resolve_level_with(spec, path, &[])
}

fn resolve_level_with<'a>(spec: &'a CmdSpec, path: &[(u8, u8)], pos_before: &[u8]) -> (Vec<&'a CmdSpec>, Vec<String>) {
    let mut chain = vec![spec];
    let mut words = Vec::new();
    let mut cur = spec;
    for (step, (si, ai)) in path.iter().enumerate() {
        if cur.subs.is_empty() {
            break;
        }
        let n_pos = pos_before.get(step).copied().unwrap_or(0) % 3;
        let multi_pos = cur.args.iter().any(|a| a.is_positional() && a.is_multiple_values() && !a.last && a.value_delimiter.is_none());
        let first_pos_is_multi = cur.args.iter().find(|a| a.is_positional()).map(|a| a.is_multiple_values() && !a.last).unwrap_or(false);
        if n_pos > 0 && multi_pos && first_pos_is_multi && cur.has(CmdSetting::SubcommandPrecedenceOverArg) && !cur.has(CmdSetting::ArgsConflictsWithSubcommands) {
            for _ in 0..n_pos {
                words.push("val7".to_string());
            }
        }
        let s = &cur.subs[*si as usize % cur.subs.len()];
        let mut spell = vec![s.name.clone()];
        spell.extend(s.visible_aliases.iter().cloned());
        spell.extend(s.aliases.iter().cloned());
        words.push(spell[*ai as usize % spell.len()].clone());
        chain.push(s);
        cur = s;
    }
    (chain, words)
}

fn globals_of<'a>(chain: &[&'a CmdSpec]) -> Vec<&'a ArgSpec> {
    let mut v: Vec<&ArgSpec> = Vec::new();
    for c in &chain[..chain.len() - 1] {
        for a in c.args.iter().filter(|a| a.global) {
            if !v.iter().any(|x| x.id == a.id) {
                v.push(a);
            }
        }
    }
    v
}

/// Print an intent line. Returns None when the intent does not apply to this tree
/// (e.g. a prefix is requested but the level has no such names).
fn print_intent(spec: &CmdSpec, il: &IntentLine) -> Option<Printed> {
    if il.via_help {
        if spec.subs.is_empty() || spec.has(CmdSetting::DisableHelpSubcommand) || spec.has(CmdSetting::NoBinaryName) || spec.subs.iter().any(|s| s.all_names().iter().any(|n| n == "help")) {
            return None;
        }
        let (chain, _) = resolve_level(spec, &il.path);
        let level = *chain.last().unwrap();
        let word = match &il.word {
            Word::Empty => String::new(),
            Word::SubPrefix(pick, cut) => {
                let names: Vec<&String> = level.subs.iter().filter(|s| !s.has(CmdSetting::Hide)).map(|s| &s.name).collect();
                if names.is_empty() {
                    return None;
                }
                let chars: Vec<char> = names[*pick as usize % names.len()].chars().collect();
                chars[..1 + (*cut as usize % chars.len())].iter().collect()
            }
            _ => return None,
        };
        let mut args: Vec<OsString> = vec![OsString::from("prog"), OsString::from("help")];
        args.extend(chain[1..].iter().map(|c| OsString::from(&c.name)));
        let lead = args.len();
        let index = args.len();
        args.push(OsString::from(&word));
        let word_bytes = word.clone().into_bytes();
        return Some(Printed { args, index, level_path: Vec::new(), word, word_bytes, lead });
    }
    let (chain, mut words) = resolve_level_with(spec, &il.path, &il.pos_before);
    let level = *chain.last().unwrap();
    let globals = globals_of(&chain);
    let ents = level_entities(level, &globals);
    let named: Vec<&ArgSpec> = level.args.iter().chain(globals.iter().copied()).filter(|a| !a.is_positional()).collect();
    let mut args: Vec<OsString> = if spec.has(CmdSetting::NoBinaryName) { vec![] } else { vec![OsString::from("prog")] };
    args.extend(words.drain(..).map(OsString::from));
    let lead = args.len();
    // completed tokens before the cursor: value-less flags, or options with an attached value
    for b in &il.before {
        if named.is_empty() {
            break;
        }
        let a = named[*b as usize % named.len()];
        if matches!(a.action, Action::Help | Action::HelpShort | Action::HelpLong | Action::Version) {
            continue;
        }
        let sp = match (&a.long, a.short) {
            (Some(l), _) => format!("--{l}"),
            (None, Some(s)) => format!("-{s}"),
            _ => continue,
        };
        if a.takes_values() {
            let (min, _) = a.value_range();
            if min > 1 {
                continue;
            }
            // an OS-string / path option may carry a value that is not UTF-8
            let val: &[u8] = if matches!(a.parser, ValParser::Os | ValParser::Path) && *b >= 8 {
                b"caf\xe9"
            } else if *b % 5 == 4 && (sp.starts_with("--") || a.require_equals) {
                // `--opt=`: an empty value is a value, the option is complete
                b""
            } else {
                b"val7"
            };
            let mut tok = sp.clone().into_bytes();
            if sp.starts_with("--") || a.require_equals {
                tok.push(b'=');
            }
            tok.extend_from_slice(val);
            args.push(B(tok).os());
        } else {
            args.push(OsString::from(sp));
        }
    }
    let word = match &il.word {
        Word::Empty => String::new(),
        Word::Dash => "-".to_string(),
        Word::DashDash => "--".to_string(),
        Word::LongPrefix(pick, cut) => {
            let longs: Vec<&String> = ents.iter().flat_map(|e| e.visible.iter()).filter(|s| s.starts_with("--")).collect();
            if longs.is_empty() {
                return None;
            }
            let l = longs[*pick as usize % longs.len()];
            let chars: Vec<char> = l.chars().collect();
            if chars.len() < 4 {
                return None;
            }
            // (up to and including the whole spelling: an exact match still has to offer what extends it)
            let n = 3 + (*cut as usize % (chars.len() - 2));
            chars[..n].iter().collect()
        }
        Word::ShortCluster(picks) => {
            // (the primary short and the visible short aliases: a cluster may spell a flag either way, and
            // what is offered has to extend the cluster as it was typed)
            let flags: Vec<char> = named.iter().filter(|a| !a.takes_values() && !matches!(a.action, Action::Help | Action::HelpShort | Action::HelpLong | Action::Version)).flat_map(|a| a.short.into_iter().chain(if a.short.is_some() { a.visible_short_aliases.clone() } else { Vec::new() })).collect();
            if flags.is_empty() || picks.is_empty() {
                return None;
            }
            let mut s = String::from("-");
            for p in picks.iter().take(3) {
                s.push(flags[*p as usize % flags.len()]);
            }
            s
        }
        Word::ShortClusterBadTail(picks) => {
            let flags: Vec<char> = named.iter().filter(|a| !a.takes_values() && !matches!(a.action, Action::Help | Action::HelpShort | Action::HelpLong | Action::Version)).filter_map(|a| a.short).collect();
            if flags.is_empty() || picks.is_empty() {
                return None;
            }
            let mut s = String::from("-");
            for p in picks.iter().take(2) {
                s.push(flags[*p as usize % flags.len()]);
            }
            let mut bytes = s.clone().into_bytes();
            bytes.push(0xff);
            let index = args.len();
            args.push(B(bytes.clone()).os());
            return Some(Printed { args, index, level_path: Vec::new(), word: String::from_utf8_lossy(&bytes).to_string(), word_bytes: bytes, lead });
        }
        Word::ShortOptValue(pick) => {
            let mut spellings: Vec<char> = Vec::new();
            for a in named.iter().filter(|a| a.takes_values() && a.value_range().0 >= 1 && !a.hide) {
                spellings.extend(a.visible_short_aliases.iter().copied());
                spellings.extend(a.short);
            }
            if spellings.is_empty() {
                return None;
            }
            format!("-{}", spellings[*pick as usize % spellings.len()])
        }
        Word::SubPrefix(pick, cut) => {
            let names: Vec<&String> = ents.iter().filter(|e| e.id.starts_with("command::")).flat_map(|e| e.visible.iter()).collect();
            if names.is_empty() {
                return None;
            }
            let n = names[*pick as usize % names.len()];
            let chars: Vec<char> = n.chars().collect();
            if chars.len() < 2 {
                return None;
            }
            let k = 1 + (*cut as usize % chars.len());
            chars[..k].iter().collect()
        }
    };
    let index = args.len();
    args.push(OsString::from(&word));
    let level_path = Vec::new();
    let word_bytes = word.clone().into_bytes();
    Some(Printed { args, index, level_path, word, word_bytes, lead })
}

fn short_flag_before(p: &Printed, chain_len: usize) -> bool {
    let before = &p.args[chain_len.min(p.args.len())..p.index.min(p.args.len())];
    before.iter().any(|t| {
        let b = t.as_bytes();
        b.len() > 2 && b[0] == b'-' && b[1] != b'-'
    })
}

fn short_flag_before_hyphen_positional(level: &CmdSpec, p: &Printed, chain_len: usize) -> bool {
    let hyphen_pos = level.args.iter().any(|a| a.is_positional() && (a.allow_hyphen_values || a.allow_negative_numbers));
    let before = &p.args[chain_len.min(p.args.len())..p.index.min(p.args.len())];
    hyphen_pos && before.iter().any(|t| {
        let b = t.as_bytes();
        b.len() >= 2 && b[0] == b'-' && b[1] != b'-'
    })
}

fn cand_str(c: &CompletionCandidate) -> String {
    format!("{}{}{}", crate::bytes::esc(c.get_value().as_bytes()), if c.is_hide_set() { "(hidden)" } else { "" }, c.get_id().map(|i| format!("#{i}")).unwrap_or_default())
}

const SHELLS: usize = 5;

fn adapter(i: u8) -> &'static dyn EnvCompleter {
    match i as usize % SHELLS {
        0 => &clap_complete::env::Bash,
        1 => &clap_complete::env::Elvish,
        2 => &clap_complete::env::Fish,
        3 => &clap_complete::env::Powershell,
        _ => &clap_complete::env::Zsh,
    }
}

fn set_adapter_env(e: &AdapterEnv) {
    let set = |k: &str, v: &Option<B>| match v {
        Some(b) if !b.0.contains(&0) => std::env::set_var(k, b.as_os()),
        _ => std::env::remove_var(k),
    };
    set("_CLAP_COMPLETE_INDEX", &e.index);
    set("_CLAP_IFS", &e.ifs);
    set("_CLAP_COMPLETE_COMP_TYPE", &e.comp_type);
    set("_CLAP_COMPLETE_SPACE", &e.space);
}

fn clear_adapter_env() {
    for k in ["_CLAP_COMPLETE_INDEX", "_CLAP_IFS", "_CLAP_COMPLETE_COMP_TYPE", "_CLAP_COMPLETE_SPACE", "COMPLETE"] {
        std::env::remove_var(k);
    }
}

fn gen_word(rng: &mut Rng) -> Word {
    match rng.below(10) {
        0 | 1 => Word::Empty,
        2 => Word::Dash,
        3 => Word::DashDash,
        4 | 5 | 6 => Word::LongPrefix(rng.below(32) as u8, rng.below(16) as u8),
        7 => {
            let picks = (0..rng.urange(1, 3)).map(|_| rng.below(16) as u8).collect();
            if rng.chance(1, 5) {
                Word::ShortClusterBadTail(picks)
            } else {
                Word::ShortCluster(picks)
            }
        }
        8 if rng.coin() => Word::ShortOptValue(rng.below(16) as u8),
        _ => Word::SubPrefix(rng.below(16) as u8, rng.below(16) as u8),
    }
}

fn gen_line(rng: &mut Rng, spec: &CmdSpec) -> Line {
    if rng.chance(2, 5) {
        let mut args = vec![B::s("prog")];
        args.extend(gen_argv(rng, spec, 7));
        if rng.chance(1, 3) {
            args.push(B::s(""));
        }
        let index = match rng.below(8) {
            0 => 0,
            1 => args.len() as u32,
            2 => args.len() as u32 + 3,
            3 => u32::MAX,
            _ => rng.below(args.len() as u64 + 1) as u32,
        };
        if rng.chance(1, 20) {
            args.clear();
        }
        // the word under the cursor is a delimited value list of an argument that declares a (possibly
        // multi-byte) value delimiter
        let mut delimited: Vec<(Option<&str>, &ArgSpec)> = spec.args.iter().filter(|a| a.value_delimiter.is_some() && a.takes_values()).map(|a| (None, a)).collect();
        for sub in &spec.subs {
            delimited.extend(sub.args.iter().filter(|a| a.value_delimiter.is_some() && a.takes_values()).map(|a| (Some(sub.name.as_str()), a)));
        }
        if !delimited.is_empty() && rng.chance(1, 2) {
            let (via, a) = *rng.pick(&delimited);
            let d = a.value_delimiter.unwrap();
            let list = match rng.below(4) {
                0 => format!("v1{d}"),
                1 => format!("v1{d}v"),
                2 => format!("{d}"),
                _ => format!("v1{d}v2{d}v"),
            };
            let tok = match (&a.long, a.short) {
                _ if a.is_positional() => list,
                (Some(l), _) => format!("--{l}={list}"),
                (None, Some(s)) => format!("-{s}{list}"),
                _ => list,
            };
            let mut args = vec![B::s("prog"), B::s(&tok)];
            if a.is_positional() && rng.coin() {
                args.insert(1, B::s("--"));
            }
            if let Some(sub) = via {
                args.insert(1, B::s(sub));
            }
            let index = args.len() as u32 - 1;
            return Line::Soup { args, index };
        }
        Line::Soup { args, index }
    } else {
        Line::Intent(IntentLine {
            path: (0..*rng.pick(&[0usize, 1, 2, 2])).map(|_| (rng.below(8) as u8, rng.below(4) as u8)).collect(),
            before: (0..rng.usize(3)).map(|_| rng.below(16) as u8).collect(),
            pos_before: if rng.chance(1, 3) { (0..2).map(|_| rng.below(3) as u8).collect() } else { vec![] },
            word: gen_word(rng),
            via_help: rng.chance(1, 8),
        })
    }
}

fn gen_env(rng: &mut Rng, line_len: usize) -> AdapterEnv {
    let idx = match rng.below(8) {
        0 => None,
        1 => Some(B::s("abc")),
        2 => Some(B::s("-1")),
        3 => Some(B::s("99999999999999999999")),
        4 => Some(B::s(&(line_len + 2).to_string())),
        5 => Some(B(vec![0xff])),
        _ => Some(B::s(&rng.below(line_len as u64 + 1).to_string())),
    };
    AdapterEnv {
        index: idx,
        ifs: match rng.below(5) {
            0 => None,
            1 => Some(B::s("")),
            2 => Some(B::s("\u{b}")),
            3 => Some(B::s("\u{20ac}\n")),
            _ => Some(B::s("\n")),
        },
        comp_type: match rng.below(4) {
            0 => None,
            1 => Some(B::s("63")),
            2 => Some(B::s("zzz")),
            _ => Some(B::s("9")),
        },
        space: match rng.below(3) {
            0 => None,
            1 => Some(B::s("true")),
            _ => Some(B::s("maybe")),
        },
    }
}

impl Engine for CompSim {
    type Sc = CompSc;
    fn prop(&self) -> &'static str {
        "C18"
    }
    fn meta(&self) -> Meta {
        Meta {
            engine: "compsim",
            level: "exploration",
            rule: "a scenario is a command tree (depth <= 3; globals, aliases, hidden items, value hints incl. path hints, possible values, caller-supplied completer callbacks returning empty/duplicate/hidden-only/very long lists) plus a history of 1-8 operations on ONE long-lived &mut Command: engine::complete on token soup (any bytes, any cursor index incl. out of range) or on a line printed from an intent (level reached and cursor word known), the five EnvCompleter::write_complete adapters under a generated adapter environment (_CLAP_COMPLETE_INDEX absent/non-numeric/negative/huge/out of range, _CLAP_IFS absent/empty/multi-byte, COMP_TYPE, SPACE) through a fault-injecting sink, write_registration through the sink, CompleteEnv::try_complete with COMPLETE unset/0/empty/unknown, and ordinary parses in between. Path hints read a scratch directory tree (dot-files, spaces, newlines, colons, backslashes, non-UTF-8 names, dangling symlinks, a symlink loop, an empty directory) or a missing / file / absent current_dir. Non-trivial = >= 2 operations or a sink/env fault fired, with >= 1 comparison; distinct = distinct scenario hash. Added during the build phase: no_binary_name trees, look-alike and shadowed spellings, words with non-UTF-8 tails / ending in a value-taking short option / being a whole spelling, delimited value lists, empty and non-UTF-8 option values before the cursor, levels addressed through the generated help subcommand, external subcommand candidates, visible short aliases inside the cluster under the cursor",
            real_components: &["clap_complete::engine::complete (shadow parser, candidate assembly)", "clap_complete::engine::custom (path completion, callbacks)", "clap_complete::env::{Bash,Elvish,Fish,Powershell,Zsh} adapters", "CompleteEnv::try_complete (paths that do not write to stdout)", "clap parser (acceptance of offered candidates)", "the real process environment and a real scratch directory"],
            stub_components: &["FaultyWriter sink", "completer callbacks supplied by the scenario", "scratch directory tree created per run"],
            workload_only_clauses: &["the candidate-validity and representation clauses are evaluated on lines printed from an intent so that the level reached is known without re-implementing the engine"],
            assumptions: &["write_complete is only called with a non-empty argv (CompleteEnv guarantees it)", "representation is per entity (the engine de-duplicates per argument/subcommand), not per spelling", "no option value before the cursor equals a subcommand name (the engine looks subcommands up before its own state)"],
            abort_is_violation: true,
        }
    }
    fn runs(&self, tier: Tier) -> u64 {
        match tier {
            Tier::Quick => 300_000,
            Tier::Thorough => 12_000_000,
        }
    }
    fn heartbeat(&self) -> u64 {
        128
    }

    fn gen(&self, rng: &mut Rng, _tier: Tier) -> CompSc {
        let mut cfg = GenCfg::parse_heavy();
        cfg.help_features = true;
        cfg.text = TextKind::Plain;
        cfg.allow_multicall = false;
        cfg.allow_defer = false;
        // (a command without a binary name has a real argument at index 0)
        cfg.allow_no_binary_name = true;
        cfg.allow_ignore_errors = false;
        cfg.value_hints = true;
        cfg.allow_flag_subs = false;
        cfg.digit_shorts = false;
        let mut spec = gen_tree(rng, &cfg);
        for _ in 0..3 {
            if gate(&spec).is_ok() {
                break;
            }
            spec = gen_tree(rng, &cfg);
        }
        spec.name = "prog".into();
        // caller-supplied completers on some value-taking arguments
        let mut with_fs = false;
        fn deco(rng: &mut Rng, c: &mut CmdSpec, with_fs: &mut bool) {
            for a in c.args.iter_mut() {
                if a.action.takes_values() && rng.chance(1, 6) {
                    a.completer = 1 + rng.below(5) as u8;
                }
                if matches!(a.value_hint, Some(Hint::AnyPath | Hint::FilePath | Hint::DirPath | Hint::ExecutablePath)) {
                    *with_fs = true;
                }
            }
            if c.has(CmdSetting::AllowExternalSubcommands) && rng.chance(1, 2) {
                c.ext_candidates = 1 + rng.below(5) as u8;
            }
            for s in c.subs.iter_mut() {
                deco(rng, s, with_fs);
            }
        }
        deco(rng, &mut spec, &mut with_fs);
        // the same long spelling on two levels with different arity: a value-taking, non-global option of a
        // level and a value-less flag of its subcommand (each level must be looked up in its own definition)
        fn shadow(rng: &mut Rng, c: &mut CmdSpec) {
            let parent_long = c.args.iter().find(|a| a.takes_values() && !a.global && !a.is_positional() && a.long.is_some() && a.value_range().0 >= 1).and_then(|a| a.long.clone());
            if let Some(l) = parent_long {
                for sub in c.subs.iter_mut() {
                    if rng.chance(1, 2) {
                        if let Some(f) = sub.args.iter_mut().find(|a| !a.takes_values() && !a.global && a.long.is_some() && matches!(a.action, Action::SetTrue | Action::SetFalse | Action::Count)) {
                            f.long = Some(l.clone());
                        }
                    }
                }
            }
            for sub in c.subs.iter_mut() {
                shadow(rng, sub);
            }
        }
        if rng.chance(1, 3) {
            let before = spec.clone();
            shadow(rng, &mut spec);
            if gate(&spec).is_err() {
                spec = before;
            }
        }
        // a long spelling that extends another long of the same level, and a hidden alias of one subcommand
        // that extends the name of a visible sibling
        fn lookalikes(rng: &mut Rng, c: &mut CmdSpec) {
            let longs: Vec<usize> = c.args.iter().enumerate().filter(|(_, a)| !a.is_positional() && a.long.is_some() && !a.hide).map(|(i, _)| i).collect();
            if longs.len() >= 2 && rng.coin() {
                let base = c.args[longs[0]].long.clone().unwrap();
                c.args[longs[1]].long = Some(format!("{base}-mode"));
            }
            let vis: Vec<usize> = c.subs.iter().enumerate().filter(|(_, s)| !s.has(CmdSetting::Hide)).map(|(i, _)| i).collect();
            if vis.len() >= 2 && rng.coin() {
                let other = c.subs[vis[1]].name.clone();
                c.subs[vis[0]].aliases.push(format!("{other}-b"));
            }
            for s in c.subs.iter_mut() {
                lookalikes(rng, s);
            }
        }
        if rng.chance(1, 3) {
            let before = spec.clone();
            lookalikes(rng, &mut spec);
            if gate(&spec).is_err() {
                spec = before;
            }
        }
        let n_ops = rng.urange(1, 8);
        let mut ops = Vec::new();
        // a third of the histories start with a parse (the command is then partly built when the engine sees it)
        if rng.chance(1, 3) {
            ops.push(COp::Parse(gen_argv(rng, &spec, 6)));
        }
        for _ in 0..n_ops {
            ops.push(match rng.weighted(&[10, 5, 1, 1, 4]) {
                0 => COp::Complete(gen_line(rng, &spec)),
                1 => {
                    let line = gen_line(rng, &spec);
                    COp::Adapter { shell: rng.below(5) as u8, line, env: gen_env(rng, 6), plan: gen_plan(rng, 12, 200, true) }
                }
                2 => COp::Registration { shell: rng.below(5) as u8, plan: gen_plan(rng, 2, 600, true) },
                3 => COp::TryComplete(match rng.below(4) {
                    0 => None,
                    1 => Some(B::s("")),
                    2 => Some(B::s("0")),
                    _ => Some(B::s("no-such-shell")),
                }),
                _ => COp::Parse(gen_argv(rng, &spec, 6)),
            });
        }
        CompSc {
            spec,
            cwd: *rng.pick(&[CwdKind::Scratch, CwdKind::Scratch, CwdKind::None, CwdKind::Missing, CwdKind::AFile]),
            with_fs,
            ops,
        }
    }

    fn exec(&self, sc: &CompSc, log: &mut Log) -> Outcome {
        let mut out = Outcome::default();
        clear_adapter_env();
        if let Err(why) = gate(&sc.spec) {
            out.count("misc.specs_rejected_by_gate");
            ev!(log, "gate rejected: {why}");
            return out;
        }
        let scratch = if sc.with_fs { scratch() } else { None };
        let r = catch(|| exec_ops(sc, scratch, log, &mut out));
        clear_adapter_env();
        if let Err(p) = r {
            if panic_in_harness(&p) {
                out.violate("HARNESS-PANIC", short_file(&p), format!("{} at {}", p.msg, p.loc));
            } else {
                out.violate("panic", short_file(&p), format!("{} at {}", p.msg, p.loc));
            }
        }
        out
    }

    fn shrink(&self, sc: &CompSc) -> Vec<CompSc> {
        let mut c = Vec::new();
        let n = sc.ops.len();
        for i in 0..n {
            if n > 1 {
                let mut s = sc.clone();
                s.ops.remove(i);
                c.push(s);
            }
        }
        if sc.with_fs {
            let mut s = sc.clone();
            s.with_fs = false;
            c.push(s);
        }
        if sc.cwd != CwdKind::None {
            let mut s = sc.clone();
            s.cwd = CwdKind::None;
            c.push(s);
        }
        for sp in shrink_spec(&sc.spec) {
            let mut s = sc.clone();
            s.spec = sp;
            c.push(s);
        }
        for i in 0..n {
            let shrink_line = |l: &Line| -> Vec<Line> {
                let mut v = Vec::new();
                match l {
                    Line::Soup { args, index } => {
                        for k in 0..args.len() {
                            let mut a = args.clone();
                            a.remove(k);
                            let idx = if (*index as usize) > k && *index != u32::MAX { index - 1 } else { *index };
                            v.push(Line::Soup { args: a, index: idx });
                        }
                        for (k, a) in args.iter().enumerate() {
                            if a.0.len() > 1 {
                                let mut b = args.clone();
                                b[k].0.pop();
                                v.push(Line::Soup { args: b, index: *index });
                            }
                        }
                    }
                    Line::Intent(il) => {
                        if !il.before.is_empty() {
                            let mut x = il.clone();
                            x.before.pop();
                            v.push(Line::Intent(x));
                        }
                        if !il.path.is_empty() {
                            let mut x = il.clone();
                            x.path.pop();
                            v.push(Line::Intent(x));
                        }
                    }
                }
                v
            };
            match &sc.ops[i] {
                COp::Complete(l) => {
                    for x in shrink_line(l) {
                        let mut s = sc.clone();
                        s.ops[i] = COp::Complete(x);
                        c.push(s);
                    }
                }
                COp::Adapter { shell, line, env, plan } => {
                    for x in shrink_line(line) {
                        let mut s = sc.clone();
                        s.ops[i] = COp::Adapter { shell: *shell, line: x, env: env.clone(), plan: plan.clone() };
                        c.push(s);
                    }
                    for q in shrink_plan(plan) {
                        let mut s = sc.clone();
                        s.ops[i] = COp::Adapter { shell: *shell, line: line.clone(), env: env.clone(), plan: q };
                        c.push(s);
                    }
                    if *env != AdapterEnv::default() {
                        let mut s = sc.clone();
                        s.ops[i] = COp::Adapter { shell: *shell, line: line.clone(), env: AdapterEnv::default(), plan: plan.clone() };
                        c.push(s);
                    }
                }
                COp::Registration { shell, plan } => {
                    for q in shrink_plan(plan) {
                        let mut s = sc.clone();
                        s.ops[i] = COp::Registration { shell: *shell, plan: q };
                        c.push(s);
                    }
                }
                COp::Parse(a) => {
                    for v in shrink_argv(a) {
                        let mut s = sc.clone();
                        s.ops[i] = COp::Parse(v);
                        c.push(s);
                    }
                }
                _ => {}
            }
        }
        c
    }

    fn fixed(&self) -> Vec<(String, CompSc)> {
        // the history that reached `unreachable!` before the repair: an option awaiting a value,
        // then an unknown flag while the positional allows hyphen values
        let mut opt = ArgSpec::new("opt", Action::Set);
        opt.long = Some("opt".into());
        let mut pos = ArgSpec::new("pos", Action::Set);
        pos.allow_hyphen_values = true;
        let spec = CmdSpec { name: "prog".into(), args: vec![opt, pos], ..Default::default() };
        vec![(
            "pending-option-then-unknown-flag".into(),
            CompSc { spec, cwd: CwdKind::None, with_fs: false, ops: vec![COp::Complete(Line::Soup { args: vec![B::s("prog"), B::s("--opt"), B::s("--unknown"), B::s("")], index: 3 })] },
        )]
    }
}

fn line_args(spec: &CmdSpec, l: &Line) -> Option<(Vec<OsString>, usize, Option<Printed>)> {
    match l {
        Line::Soup { args, index } => Some((args.iter().map(|b| b.os()).collect(), *index as usize, None)),
        Line::Intent(il) => {
            let p = print_intent(spec, il)?;
            Some((p.args.clone(), p.index, Some(p)))
        }
    }
}

fn exec_ops(sc: &CompSc, scratch: Option<&Scratch>, log: &mut Log, out: &mut Outcome) {
    let mut aged = build_cmd(&sc.spec);
    let mut shape = ShapeHasher::new();
    shape.add(sc.spec.feature_bits());
    out.nontrivial = sc.ops.len() >= 2;
    let missing = PathBuf::from("/nonexistent-dir-for-clap-sim/x");
    let cwd: Option<PathBuf> = match sc.cwd {
        CwdKind::None => None,
        CwdKind::Scratch => scratch.map(|s| s.root.clone()),
        CwdKind::Missing => Some(missing),
        CwdKind::AFile => scratch.map(|s| s.root.join("plain.txt")).or(Some(PathBuf::from("/etc/hostname"))),
    };
    out.count(match sc.cwd {
        CwdKind::None => "ambient.cwd_none",
        CwdKind::Scratch => "ambient.cwd_scratch_tree",
        CwdKind::Missing => "ambient.cwd_missing",
        CwdKind::AFile => "ambient.cwd_is_a_file",
    });
    let mut parsed_before = false;
    for (i, op) in sc.ops.iter().enumerate() {
        out.steps += 1;
        match op {
            COp::Complete(line) => {
                shape.add(1);
                let Some((args, index, printed)) = line_args(&sc.spec, line) else { continue };
                let r_aged = catch(|| clap_complete::engine::complete(&mut aged, args.clone(), index, cwd.as_deref()));
                out.count(if printed.is_some() { "op.complete_intent_line" } else { "op.complete_token_soup" });
                let list_aged = match r_aged {
                    Err(p) => {
                        out.violate("panic", format!("engine::complete@{}", short_file(&p)), format!("op {i}: complete({:?}, index {index}) panicked: {} at {}", args, p.msg, p.loc));
                        return;
                    }
                    Ok(Err(e)) => {
                        ev!(log, "{i} complete {:?}@{index} -> Err({e})", args);
                        // "(or a plain 'no completion' error)": the one error the engine has for "nothing here"
                        if e.kind() != std::io::ErrorKind::Other || e.to_string() != "no completion generated" {
                            out.violate("not-the-plain-no-completion-error", format!("{:?}", e.kind()), format!("op {i}: complete({:?}, index {index}) failed with {:?} / {e:?}, not with the plain `no completion generated` error", args, e.kind()));
                            return;
                        }
                        None
                    }
                    Ok(Ok(l)) => {
                        ev!(log, "{i} complete {:?}@{index} -> {:?}", args, l.iter().map(cand_str).collect::<Vec<_>>());
                        Some(l)
                    }
                };
                out.comparisons += 1;
                // aged and fresh commands give the same list
                let mut fresh = build_cmd(&sc.spec);
                let r_fresh = catch(|| clap_complete::engine::complete(&mut fresh, args.clone(), index, cwd.as_deref()));
                let list_fresh = match r_fresh {
                    Ok(Ok(l)) => Some(l),
                    Ok(Err(_)) => None,
                    Err(p) => {
                        out.violate("panic", format!("engine::complete@{}", short_file(&p)), format!("op {i}: complete on a fresh command panicked: {} at {}", p.msg, p.loc));
                        return;
                    }
                };
                let show = |l: &Option<Vec<CompletionCandidate>>| l.as_ref().map(|v| v.iter().map(cand_str).collect::<Vec<_>>());
                if show(&list_aged) != show(&list_fresh) && parsed_before && args.iter().any(|a| a == "help") {
                    // listed finding: a parse built the `help` subcommand lazily (no subtree); build() inside
                    // the engine cannot expand it any more, so `prog help <TAB>` offers nothing
                    out.violate("aged-vs-fresh", "lazy-help-subcommand-after-parse", format!("op {i}: complete({:?}, index {index}) gives {:?} on a previously parsed command, {:?} on a fresh one", args, show(&list_aged), show(&list_fresh)));
                    continue;
                }
                if show(&list_aged) != show(&list_fresh) {
                    out.violate("aged-vs-fresh", "engine::complete", format!("op {i}: complete({:?}, index {index}) after {} earlier operations gives {:?}, a fresh command gives {:?}", args, i, show(&list_aged), show(&list_fresh)));
                    return;
                }
                if let (Some(p), Some(list)) = (printed, &list_aged) {
                    if let Some((clause, site, d)) = check_intent(sc, line, &p, list) {
                        out.violate(clause, site, format!("op {i}: line {:?} cursor word {:?}: {d}; candidates = {:?}", p.args, p.word, list.iter().map(cand_str).collect::<Vec<_>>()));
                        return;
                    }
                    out.count("probe.intent_line_checked");
                }
            }
            COp::Adapter { shell, line, env, plan } => {
                shape.add(2 + *shell as u64 % 5);
                let Some((args, index, _)) = line_args(&sc.spec, line) else { continue };
                if args.is_empty() {
                    continue;
                }
                let a = adapter(*shell);
                let mut env = env.clone();
                if matches!(line, Line::Intent(_)) && env.index.as_ref().map(|b| b.0 == b"abc").unwrap_or(false) {
                    env.index = Some(B::s(&index.to_string()));
                }
                set_adapter_env(&env);
                out.count_dyn(format!("op.adapter_{}", a.name()));
                out.count(match &env.index {
                    None => "ambient.index_absent",
                    Some(b) if b.as_str().and_then(|s| s.parse::<usize>().ok()).is_none() => "ambient.index_not_a_number",
                    Some(b) if b.as_str().and_then(|s| s.parse::<usize>().ok()).map(|n| n >= args.len()).unwrap_or(false) => "ambient.index_out_of_range",
                    _ => "ambient.index_in_range",
                });
                if env.ifs.as_ref().map(|b| b.0.is_empty()).unwrap_or(false) {
                    out.count("ambient.ifs_empty");
                }
                // reference: perfect sink on a fresh command
                let perfect = FaultPlan::perfect();
                let mut wref = FaultyWriter::new(&perfect);
                let mut fresh = build_cmd(&sc.spec);
                let rr = catch(|| a.write_complete(&mut fresh, args.clone(), cwd.as_deref(), &mut wref));
                let mut w = FaultyWriter::new(plan);
                let r = catch(|| a.write_complete(&mut aged, args.clone(), cwd.as_deref(), &mut w));
                clear_adapter_env();
                for f in &w.fired {
                    out.count_dyn(format!("fault.{f}"));
                    shape.add_str(f);
                }
                if !w.fired.is_empty() {
                    out.nontrivial = true;
                }
                out.comparisons += 1;
                ev!(log, "{i} adapter {} {:?} env={:?} -> ok={:?} {} bytes", a.name(), args, env, r.as_ref().map(|x| x.is_ok()).unwrap_or(false), w.delivered.len());
                match (&rr, &r) {
                    (Err(p), _) | (_, Err(p)) => {
                        out.violate("panic", format!("{}::write_complete@{}", a.name(), short_file(p)), format!("op {i}: {} adapter with args {:?}, env {:?} panicked: {} at {}", a.name(), args, env, p.msg, p.loc));
                        return;
                    }
                    (Ok(ref_res), Ok(res)) => {
                        if ref_res.is_err() {
                            // "no completion generated": the faulty run may fail the same way or on the sink
                            if res.is_ok() && !w.delivered.is_empty() {
                                out.violate("adapter-bytes-differ", a.name(), format!("op {i}: reference run reports {:?} but the aged run delivered {} bytes", ref_res.as_ref().err().map(|e| e.to_string()), w.delivered.len()));
                                return;
                            }
                        } else if w.hard_fired {
                            if res.is_ok() {
                                out.violate("sink-error-swallowed", a.name(), format!("op {i}: hard sink faults {:?} fired but write_complete returned Ok", w.fired));
                                return;
                            }
                            if !wref.delivered.starts_with(&w.delivered) {
                                out.violate("sink-garbage", a.name(), format!("op {i}: delivered bytes are not a prefix of the reference under {:?}", w.fired));
                                return;
                            }
                        } else {
                            if let Err(e) = res {
                                out.violate("sink-benign-fault-not-tolerated", a.name(), format!("op {i}: only benign sink faults {:?} fired but write_complete returned {e}", w.fired));
                                return;
                            }
                            if w.delivered != wref.delivered && parsed_before && args.iter().any(|a| a == "help") {
                                out.violate("aged-vs-fresh", "lazy-help-subcommand-after-parse", format!("op {i}: {} adapter delivers {:?} on a previously parsed command, {:?} on a fresh one", a.name(), String::from_utf8_lossy(&w.delivered), String::from_utf8_lossy(&wref.delivered)));
                                continue;
                            }
                            if w.delivered != wref.delivered {
                                out.violate("adapter-bytes-differ", a.name(), format!("op {i}: {} adapter delivered {:?} on the aged command under {:?}, the reference is {:?}", a.name(), String::from_utf8_lossy(&w.delivered), w.fired, String::from_utf8_lossy(&wref.delivered)));
                                return;
                            }
                        }
                    }
                }
            }
            COp::Registration { shell, plan } => {
                shape.add(10);
                let a = adapter(*shell);
                let mut w = FaultyWriter::new(plan);
                let r = catch(|| a.write_registration("COMPLETE", "prog", "prog", "/usr/bin/prog", &mut w));
                let perfect = FaultPlan::perfect();
                let mut wref = FaultyWriter::new(&perfect);
                let _ = catch(|| a.write_registration("COMPLETE", "prog", "prog", "/usr/bin/prog", &mut wref));
                for f in &w.fired {
                    out.count_dyn(format!("fault.{f}"));
                }
                if !w.fired.is_empty() {
                    out.nontrivial = true;
                }
                out.comparisons += 1;
                out.count("op.write_registration");
                ev!(log, "{i} registration {} -> {} bytes hard={}", a.name(), w.delivered.len(), w.hard_fired);
                match r {
                    Err(p) => {
                        out.violate("panic", format!("{}::write_registration@{}", a.name(), short_file(&p)), format!("op {i}: {} at {}", p.msg, p.loc));
                        return;
                    }
                    Ok(res) => {
                        if w.hard_fired && res.is_ok() && w.fired.iter().any(|f| *f != "flush_error" && *f != "short_write" && *f != "eintr" && *f != "chunk_cap") {
                            out.violate("sink-error-swallowed", a.name(), format!("op {i}: registration: hard sink faults {:?} but Ok", w.fired));
                            return;
                        }
                        if !w.hard_fired && (res.is_err() || w.delivered != wref.delivered) {
                            out.violate("adapter-bytes-differ", a.name(), format!("op {i}: registration under benign faults {:?}: result {:?}, {} vs {} bytes", w.fired, res.err().map(|e| e.to_string()), w.delivered.len(), wref.delivered.len()));
                            return;
                        }
                    }
                }
            }
            COp::TryComplete(v) => {
                shape.add(11);
                match v {
                    Some(b) if !b.0.contains(&0) => std::env::set_var("COMPLETE", b.as_os()),
                    _ => std::env::remove_var("COMPLETE"),
                }
                let spec = sc.spec.clone();
                let r = catch(|| clap_complete::CompleteEnv::with_factory(move || build_cmd(&spec)).try_complete(vec![OsString::from("prog"), OsString::from("--"), OsString::from("prog"), OsString::from("")], None));
                std::env::remove_var("COMPLETE");
                out.comparisons += 1;
                out.count("op.try_complete_inactive");
                ev!(log, "{i} try_complete COMPLETE={:?} -> {:?}", v, r.as_ref().map(|x| x.as_ref().map_err(|e| e.kind())));
                match r {
                    Err(p) => {
                        out.violate("panic", format!("CompleteEnv::try_complete@{}", short_file(&p)), format!("op {i}: {} at {}", p.msg, p.loc));
                        return;
                    }
                    Ok(res) => {
                        let inactive = v.as_ref().map(|b| b.0.is_empty() || b.0 == b"0").unwrap_or(true);
                        if inactive && !matches!(res, Ok(false)) {
                            out.violate("try-complete-activated", "inactive-var", format!("op {i}: COMPLETE={:?} must leave completion inactive, got {:?}", v, res.map_err(|e| e.kind())));
                            return;
                        }
                        if !inactive && res.is_ok() {
                            out.violate("try-complete-activated", "unknown-shell", format!("op {i}: COMPLETE={:?} names no shell but try_complete returned {:?}", v, res.ok()));
                            return;
                        }
                    }
                }
            }
            COp::Parse(argv) => {
                shape.add(12);
                let full = full_argv(&sc.spec, "prog", argv);
                let r = outcome_of(catch(|| aged.try_get_matches_from_mut(full.iter().cloned())));
                out.count("op.parse");
                parsed_before = true;
                ev!(log, "{i} parse {:?} -> {}", argv, r.class());
            }
        }
    }
    out.shape = shape.get();
}

/// The candidate-validity and representation clauses on an intent-printed line.
fn check_intent(sc: &CompSc, line: &Line, p: &Printed, list: &[CompletionCandidate]) -> Option<(&'static str, String, String)> {
    let Line::Intent(il) = line else { return None };
    let _ = &p.level_path;
    let (chain, _) = resolve_level(&sc.spec, &il.path);
    let level = *chain.last().unwrap();
    let globals = globals_of(&chain);
    let ents = level_entities(level, &globals);
    let word = p.word.as_str();
    if il.via_help {
        // below `help` only subcommand names are completed: visible ones that extend the word are offered,
        // hidden ones only when no visible one matches
        let visible_match = level.subs.iter().any(|s| !s.has(CmdSetting::Hide) && std::iter::once(&s.name).chain(s.visible_aliases.iter()).any(|n| n.starts_with(word)));
        for sub in &level.subs {
            let offered = list.iter().any(|c| c.get_id().map(|i| *i == format!("command::{}", sub.name)).unwrap_or(false));
            if sub.has(CmdSetting::Hide) && offered && visible_match {
                return Some(("hidden-offered-with-visible", "help-subtree".into(), format!("below `help`, the hidden subcommand {} is offered although visible subcommands match", sub.name)));
            }
            if !sub.has(CmdSetting::Hide) && sub.name.starts_with(word) && !offered {
                return Some(("visible-not-represented", "help-subtree".into(), format!("below `help`, the visible subcommand {} extends the word but is not offered", sub.name)));
            }
        }
        return None;
    }
    if matches!(il.word, Word::ShortOptValue(_)) {
        // the word ends in a value-taking option (by its short or a visible short alias): whatever follows is that
        // option's value, so no candidate may claim to be another flag of the level
        for c in list {
            if let Some(id) = c.get_id() {
                if id.starts_with("arg::") {
                    return Some(("flag-offered-inside-option-value", "short-option-value".into(), format!("candidate {:?} claims to be {id}, but the parser reads everything after `{word}` as that option's value", c.get_value())));
                }
            }
        }
        return None;
    }
    // external subcommand names offered by the application's SubcommandCandidates provider are subcommand
    // candidates too: they must extend the word (the provider of this workload returns a fixed list and does
    // not look at the word; argument completers, which do get the word, are kept out of this rule)
    if level.has(CmdSetting::AllowExternalSubcommands) && level.ext_candidates != 0 && !level.args.iter().chain(globals.iter().copied()).any(|a| a.completer != 0) {
        let provided: Vec<std::ffi::OsString> = candidate_list(level.ext_candidates).iter().map(|c| c.get_value().to_os_string()).collect();
        for c in list.iter().filter(|c| c.get_id().is_none()) {
            if provided.iter().any(|v| v == c.get_value()) && !c.get_value().as_bytes().starts_with(&p.word_bytes) {
                return Some(("candidate-does-not-extend-word", "external-subcommand".into(), format!("external subcommand candidate {:?} does not extend the word", c.get_value())));
            }
        }
    }
    // (1)-(3) every option/subcommand candidate
    for c in list {
        let Some(id) = c.get_id() else { continue };
        if !(id.starts_with("arg::") || id.starts_with("command::")) {
            continue;
        }
        let v = c.get_value().to_string_lossy().to_string();
        if !c.get_value().as_bytes().starts_with(&p.word_bytes) {
            let site = if matches!(il.word, Word::ShortClusterBadTail(_)) { "short-cluster-with-non-utf8-tail".to_string() } else { id.split("::").next().unwrap_or("").to_string() };
            return Some(("candidate-does-not-extend-word", site, format!("candidate {v:?} ({id}) does not extend the word")));
        }
        let auto = id == "arg::help" || id == "arg::version" || id == "command::help";
        if !auto {
            let Some(e) = ents.iter().find(|e| e.id == *id) else {
                return Some(("candidate-of-other-level", id.split("::").next().unwrap_or("").to_string(), format!("candidate {v:?} carries id {id} which is not an argument or subcommand of level `{}`", level.name)));
            };
            let names_it = if id.starts_with("arg::") {
                if v.starts_with("--") {
                    e.all.iter().any(|s| *s == v)
                } else {
                    // a short (possibly at the end of a cluster)
                    v.chars().last().map(|ch| e.all.iter().any(|s| *s == format!("-{ch}"))).unwrap_or(false)
                }
            } else {
                e.all.iter().any(|s| *s == v)
            };
            if !names_it {
                return Some(("candidate-not-a-spelling", id.split("::").next().unwrap_or("").to_string(), format!("candidate {v:?} is not a spelling of {id}")));
            }
        }
        // (3) the real parser does not call it unknown
        let mut argv: Vec<OsString> = p.args[..p.index].to_vec();
        argv.push(c.get_value().to_os_string());
        let mut fresh = build_cmd(&sc.spec);
        if let POut::Err { kind, rendered, .. } = outcome_of(catch(|| fresh.try_get_matches_from_mut(argv.iter().cloned()))) {
            if matches!(kind, ErrorKind::UnknownArgument | ErrorKind::InvalidSubcommand) {
                // an error about an EARLIER token is not about the candidate
                let first = rendered.lines().next().unwrap_or("");
                if first.contains(&format!("'{v}'")) && id.starts_with("command::") && level.has(CmdSetting::ArgsConflictsWithSubcommands) && p.args.len() > p.lead + 1 {
                    // listed finding: the engine does not model args_conflicts_with_subcommands
                    return Some(("candidate-rejected-by-parser", "subcommand-after-args-with-args-conflicts-with-subcommands".into(), format!("the parser answers {kind:?} for {:?}", argv)));
                }
                if first.contains(&format!("'{v}'")) && id.starts_with("arg::") && level.has(CmdSetting::AllowMissingPositional) && short_flag_before(p, p.lead) {
                    // listed finding (a parser defect, visible through this clause): with allow_missing_positional a
                    // known flag is rejected when it follows a short option with an attached value (`-tval --flag`)
                    return Some(("candidate-rejected-by-parser", "allow-missing-positional-after-attached-short-value".into(), format!("the parser answers {kind:?} for {:?}", argv)));
                }
                if first.contains(&format!("'{v}'")) {
                    return Some(("candidate-rejected-by-parser", id.split("::").next().unwrap_or("").to_string(), format!("the parser answers {kind:?} for {:?}: {}", argv, rendered.lines().next().unwrap_or(""))));
                }
            }
        }
    }
    // a hidden spelling (hidden alias) of a visible item is offered only when no visible spelling matches
    let offered_visible_spelling = list.iter().any(|c| {
        let v = c.get_value().to_string_lossy().to_string();
        ents.iter().any(|e| !e.hidden && e.visible.iter().any(|s| *s == v))
    });
    if offered_visible_spelling {
        for c in list {
            let Some(id) = c.get_id() else { continue };
            let v = c.get_value().to_string_lossy().to_string();
            if let Some(e) = ents.iter().find(|e| e.id == *id) {
                if !e.hidden && e.all.iter().any(|s| *s == v) && !e.visible.iter().any(|s| *s == v) {
                    return Some(("hidden-offered-with-visible", "hidden-alias".into(), format!("the hidden spelling {v:?} of {id} is offered although visible spellings match")));
                }
            }
        }
    }
    // (4) representation and hidden handling
    let any_visible_candidate = list.iter().any(|c| !c.is_hide_set());
    let cluster = matches!(il.word, Word::ShortCluster(_));
    for e in &ents {
        let extends = |s: &String| -> bool {
            if s.starts_with("--") || !s.starts_with('-') {
                // longs and subcommand names
                if !s.starts_with('-') && (word.starts_with('-')) {
                    return false;
                }
                s.starts_with(word) && (word.is_empty() || word.starts_with("--") || word == "-" || !s.starts_with('-'))
            } else {
                // a short `-x`: offered after `` / `-` / a cluster of flags
                word.is_empty() || word == "-" || cluster
            }
        };
        let matching_visible = e.visible.iter().any(|s| extends(s));
        let represented = list.iter().any(|c| c.get_id().map(|i| *i == e.id).unwrap_or(false));
        if e.hidden {
            if represented && list.iter().any(|c| !c.is_hide_set()) && list.iter().filter(|c| c.get_id().map(|i| *i == e.id).unwrap_or(false)).all(|c| c.is_hide_set()) && any_visible_candidate {
                return Some(("hidden-offered-with-visible", e.id.split("::").next().unwrap_or("").to_string(), format!("hidden {} is offered although visible candidates exist", e.id)));
            }
            continue;
        }
        let _ = e.takes_value;
        if matching_visible && !represented && short_flag_before_hyphen_positional(level, p, p.lead) {
            // listed finding: the engine hands a KNOWN value-less short flag to a positional that allows
            // hyphen values and then completes as if inside that positional
            return Some(("visible-not-represented", "known-short-flag-consumed-by-hyphen-positional".into(), format!("{} is not offered after a known short flag because a positional of `{}` allows hyphen values", e.id, level.name)));
        }
        if matching_visible && !represented {
            return Some(("visible-not-represented", e.id.split("::").next().unwrap_or("").to_string(), format!("{} has a visible spelling extending the word ({:?}) but no candidate represents it", e.id, e.visible)));
        }
    }
    None
}
