//! C12 — help and usage rendering under a simulated terminal (COLUMNS/LINES resizes between
//! calls), a fault-injecting `write_help` sink, and histories that interleave renders with
//! parses and builds on one long-lived Command.

use crate::bytes::B;
use crate::cmdsim::{full_argv, outcome_of, POut};
use crate::core::*;
use crate::ev;
use crate::faulty_writer::*;
use crate::gen::{gen_argv, gen_tree, GenCfg};
use crate::rng::Rng;
use crate::spec::*;
use clap::error::ErrorKind;
use clap::Command;
use serde::{Deserialize, Serialize};
use std::ffi::OsString;

#[derive(Clone, Debug, Hash, Serialize, Deserialize, PartialEq)]
pub enum Width {
    Unset,
    Cols(u32),
    Garbage(B),
}

#[derive(Clone, Copy, Debug, Hash, Serialize, Deserialize, PartialEq)]
pub enum Mode {
    Short,
    Long,
    Usage,
}

#[derive(Clone, Copy, Debug, Hash, Serialize, Deserialize, PartialEq)]
pub enum HelpHow {
    ShortFlag,
    LongFlag,
    HelpSubcommand,
}

#[derive(Clone, Debug, Hash, Serialize, Deserialize, PartialEq)]
pub enum HOp {
    Resize(Width, Width),
    Render(Vec<u8>, Mode),
    ParseHelp(Vec<u8>, HelpHow),
    WriteHelp(bool, FaultPlan),
    Parse(Vec<B>),
    Build,
    /// the application adds one more subcommand to the long-lived command (after whatever happened before)
    AddSub,
}

#[derive(Clone, Debug, Hash, Serialize, Deserialize, PartialEq)]
pub struct C12Sc {
    pub spec: CmdSpec,
    pub ops: Vec<HOp>,
}

pub struct HelpSim;

fn apply_width(var: &str, w: &Width) {
    match w {
        Width::Unset => std::env::remove_var(var),
        Width::Cols(c) => std::env::set_var(var, c.to_string()),
        Width::Garbage(b) => {
            if !b.0.contains(&0) {
                std::env::set_var(var, b.as_os())
            }
        }
    }
}

fn gen_width(rng: &mut Rng) -> Width {
    match rng.below(12) {
        0 => Width::Unset,
        1 => Width::Garbage(B(rng.pick(&[&b""[..], b"-1", b"abc", b"99999999999999999999", b"\xff\xfe", b" 80", b"80 ", b"0x50", b"1e2"]).to_vec())),
        2 => Width::Cols(0),
        3 => Width::Cols(rng.below(12) as u32),
        4 => Width::Cols(*rng.pick(&[1u32, 2, 3, 4, 5, 8, 10, 14, 19, 20, 21])),
        5 => Width::Cols(*rng.pick(&[200u32, 1000, 65535, 4294967295])),
        _ => Width::Cols(rng.below(201) as u32),
    }
}

/// Navigate to the subcommand addressed by `path` (indices modulo the number of children).
fn spec_at<'a>(spec: &'a CmdSpec, path: &[u8]) -> (&'a CmdSpec, Vec<&'a CmdSpec>) {
    let mut cur = spec;
    let mut chain = vec![spec];
    for p in path {
        if cur.subs.is_empty() {
            break;
        }
        cur = &cur.subs[*p as usize % cur.subs.len()];
        chain.push(cur);
    }
    (cur, chain)
}

fn cmd_at<'a>(cmd: &'a mut Command, chain: &[&CmdSpec]) -> Option<&'a mut Command> {
    let mut cur = cmd;
    for s in &chain[1..] {
        cur = cur.find_subcommand_mut(&s.name)?;
    }
    Some(cur)
}

// ------------------------------------------------------------------------------------------
// Oracle helpers on rendered plain text

fn longest_space_run(s: &str) -> usize {
    let mut best = 0;
    let mut cur = 0;
    for c in s.chars() {
        if c == ' ' {
            cur += 1;
            best = best.max(cur);
        } else {
            cur = 0;
        }
    }
    best
}

fn author_text_space_run(c: &CmdSpec) -> usize {
    fn f(best: &mut usize, s: &Option<String>) {
        if let Some(s) = s {
            *best = (*best).max(longest_space_run(s));
        }
    }
    let mut best = 0;
    f(&mut best, &c.about);
    f(&mut best, &c.long_about);
    f(&mut best, &c.before_help);
    f(&mut best, &c.after_help);
    f(&mut best, &c.after_long_help);
    f(&mut best, &c.author);
    f(&mut best, &c.help_template);
    f(&mut best, &c.override_usage);
    for a in &c.args {
        f(&mut best, &a.help);
        f(&mut best, &a.long_help);
        if let ValParser::Possible(pvs) = &a.parser {
            for p in pvs {
                f(&mut best, &p.help);
            }
        }
    }
    for s in &c.subs {
        // flattened help prints whole subtrees
        best = best.max(author_text_space_run(s));
    }
    best
}

fn name_column_bound(c: &CmdSpec) -> usize {
    let mut w = 8;
    for a in &c.args {
        let mut x = a.long.as_ref().map(|l| l.chars().count() + 2).unwrap_or(0) + 6;
        let (_, max) = a.value_range();
        let reps = max.unwrap_or(2).clamp(1, 3);
        let vn: usize = if a.value_names.is_empty() { a.id.chars().count() + 3 } else { a.value_names.iter().map(|v| v.chars().count() + 3).sum() };
        x += vn * reps + 4;
        w = w.max(x);
    }
    for s in &c.subs {
        w = w.max(s.name.chars().count() + s.visible_aliases.iter().map(|a| a.chars().count() + 2).sum::<usize>() + 4);
        w = w.max(name_column_bound(s));
    }
    w
}

/// Strings that belong to one argument only (each carries the argument's unique counter).
fn arg_sentinels(a: &ArgSpec) -> Vec<String> {
    let mut v = Vec::new();
    if let Some(l) = &a.long {
        v.push(format!("--{l}"));
    }
    for l in a.aliases.iter().chain(a.visible_aliases.iter()) {
        v.push(format!("--{l}"));
    }
    for n in &a.value_names {
        v.push(n.clone());
    }
    for h in [&a.help, &a.long_help] {
        if let Some(h) = h {
            if let Some(tag) = h.split_whitespace().find(|w| w.starts_with("hlp") || w.starts_with("lhlp")) {
                v.push(tag.to_string());
            }
        }
    }
    if a.is_positional() && a.value_names.is_empty() {
        v.push(a.id.clone());
    }
    v
}

/// `hide(true)` arguments that nothing can legitimately force into usage or help.
fn isolated_optional_hidden(c: &CmdSpec) -> Vec<&ArgSpec> {
    c.args
        .iter()
        .filter(|a| a.hide && !a.required && !a.exclusive && a.required_unless.is_empty() && a.required_if_eq.is_empty())
        .filter(|a| !c.groups.iter().any(|g| g.args.contains(&a.id) || g.requires.contains(&a.id)))
        .filter(|a| !c.args.iter().any(|o| o.requires.contains(&a.id) || o.requires_ifs.iter().any(|r| r.1 == a.id)))
        .filter(|a| !a.global || !c.subs.iter().any(|s| referenced_below(s, &a.id)))
        .collect()
}

/// Does any level of this subtree refer to `id` in a relation (inherited globals can be required from below)?
fn referenced_below(c: &CmdSpec, id: &str) -> bool {
    c.args.iter().any(|o| o.requires.iter().any(|r| r == id) || o.requires_ifs.iter().any(|r| r.1 == id) || o.conflicts.iter().any(|r| r == id))
        || c.groups.iter().any(|g| g.args.iter().any(|r| r == id) || g.requires.iter().any(|r| r == id))
        || c.subs.iter().any(|s| referenced_below(s, id))
}

fn is_default_template(c: &CmdSpec) -> bool {
    c.help_template.is_none()
}

fn sections(text: &str) -> Vec<(String, String)> {
    let mut out: Vec<(String, String)> = vec![(String::new(), String::new())];
    for line in text.lines() {
        let is_heading = !line.is_empty() && !line.starts_with(' ') && line.ends_with(':') && !line.starts_with("Usage");
        if is_heading {
            out.push((line[..line.len() - 1].to_string(), String::new()));
        } else {
            let last = out.last_mut().unwrap();
            last.1.push_str(line);
            last.1.push('\n');
        }
    }
    out
}

fn contains_token(hay: &str, tok: &str) -> bool {
    let mut start = 0;
    while let Some(i) = hay[start..].find(tok) {
        let end = start + i + tok.len();
        let next = hay[end..].chars().next();
        let ok = match next {
            Some(c) => !(c.is_alphanumeric() || c == '_' || c == '-'),
            None => true,
        };
        if ok {
            return true;
        }
        start = start + i + 1;
        while !hay.is_char_boundary(start) {
            start += 1;
        }
    }
    false
}

/// An argument row starts at the two-space tab: `  -s` followed by `,`, space, `.`, `=`, `[` or the end.
fn short_listed(line: &str, s: char) -> bool {
    let Some(rest) = line.strip_prefix("  -") else { return false };
    let mut it = rest.chars();
    if it.next() != Some(s) {
        return false;
    }
    match it.next() {
        None => true,
        Some(c) => !(c.is_alphanumeric() || c == '_' || c == '-'),
    }
}

fn visible_in(a: &ArgSpec, long_mode: bool) -> bool {
    !a.hide && !(long_mode && a.hide_long_help) && !(!long_mode && a.hide_short_help)
}

/// Checks on one rendered help/usage text of command level `c`.
/// `mode_known`: Some(true) long, Some(false) short, None = unknown (only mode-independent claims).
fn check_text(c: &CmdSpec, inherited_globals: &[&ArgSpec], text: &str, mode: Option<bool>, is_usage: bool) -> Option<(&'static str, String, String)> {
    // bounded padding
    let bound = name_column_bound(c) + 64 + author_text_space_run(c);
    let run = longest_space_run(text);
    if run > bound {
        return Some(("unbounded-padding", "space-run".into(), format!("a run of {run} spaces exceeds the bound {bound} for this command")));
    }
    if text.len() > 4_000_000 {
        return Some(("unbounded-padding", "size".into(), format!("output of {} bytes", text.len())));
    }
    // hidden things appear nowhere
    for a in isolated_optional_hidden(c) {
        for s in arg_sentinels(a) {
            if text.contains(&s) {
                return Some(("hidden-shown", "argument".into(), format!("hidden optional argument {} shows up in the output through {:?}", a.id, s)));
            }
        }
    }
    if !c.has(CmdSetting::FlattenHelp) || true {
        for s in c.subs.iter().filter(|s| s.has(CmdSetting::Hide)) {
            for n in s.all_names() {
                if contains_token(text, &n) {
                    return Some(("hidden-shown", "subcommand".into(), format!("hidden subcommand {} shows up in the output", n)));
                }
            }
        }
    }
    for a in c.args.iter().chain(inherited_globals.iter().copied()) {
        if let ValParser::Possible(pvs) = &a.parser {
            for p in pvs.iter().filter(|p| p.hide) {
                let used_as_default = a.default_values.iter().any(|d| d.0 == p.name.as_bytes()) || a.default_missing.contains(&p.name) || a.default_ifs.iter().any(|d| d.2.as_deref() == Some(p.name.as_str()));
                if used_as_default {
                    continue;
                }
                if contains_token(text, &p.name) {
                    return Some(("hidden-shown", "possible-value".into(), format!("hidden possible value {} of {} shows up in the output", p.name, a.id)));
                }
                if let Some(h) = &p.help {
                    if let Some(tag) = h.split_whitespace().find(|w| w.starts_with("pvh")) {
                        if text.contains(tag) {
                            return Some(("hidden-shown", "possible-value".into(), format!("help text of hidden possible value {} shows up", p.name)));
                        }
                    }
                }
            }
        }
    }
    // a hidden subcommand hides its whole subtree: none of its arguments' sentinels may appear either
    fn subtree_sentinels(c: &CmdSpec, out: &mut Vec<String>) {
        for a in c.args.iter().filter(|a| !a.global) {
            for s in arg_sentinels(a) {
                if s.starts_with("--") || s.starts_with("hlp") || s.starts_with("lhlp") {
                    out.push(s);
                }
            }
        }
        for s in &c.subs {
            subtree_sentinels(s, out);
        }
    }
    for sub in c.subs.iter().filter(|s| s.has(CmdSetting::Hide)) {
        let mut sent = Vec::new();
        subtree_sentinels(sub, &mut sent);
        for t in sent {
            if contains_token(text, &t) {
                return Some(("hidden-shown", "argument-of-hidden-subcommand".into(), format!("{t:?} belongs to the hidden subcommand `{}` but shows up in the output", sub.name)));
            }
        }
    }
    if is_usage || !is_default_template(c) {
        return None;
    }
    // flattened help lists the non-global arguments of every visible subcommand in a block of its own
    if c.has(CmdSetting::FlattenHelp) {
        for sub in c.subs.iter().filter(|s| !s.has(CmdSetting::Hide)) {
            for a in sub.args.iter().filter(|a| !a.global && !a.is_positional()) {
                let must = match mode {
                    Some(long) => visible_in(a, long),
                    None => visible_in(a, true) && visible_in(a, false),
                };
                if !must {
                    continue;
                }
                let found = a.long.as_ref().map(|l| contains_token(text, &format!("--{l}"))).unwrap_or(false) || a.short.map(|s| text.lines().any(|l| short_listed(l, s))).unwrap_or(false);
                if !found {
                    return Some(("visible-missing", "flattened-subcommand-option".into(), format!("flatten_help: option {} of the visible subcommand `{}` is not listed", a.id, sub.name)));
                }
            }
        }
    }
    // listing: every argument visible for the mode appears in its section
    let secs = sections(text);
    let find_section = |h: &str| secs.iter().filter(|(name, _)| name == h).map(|(_, body)| body.as_str()).collect::<Vec<_>>().join("\n");
    for a in c.args.iter().chain(inherited_globals.iter().copied()) {
        let must = match mode {
            Some(long) => visible_in(a, long),
            None => visible_in(a, true) && visible_in(a, false),
        };
        let must_not = match mode {
            Some(long) => !a.hide && !a.next_line_help && !visible_in(a, long),
            None => false,
        };
        if !must && !must_not {
            continue;
        }
        let heading = match &a.help_heading {
            Some(h) => h.clone(),
            None => {
                if a.is_positional() {
                    "Arguments".to_string()
                } else {
                    "Options".to_string()
                }
            }
        };
        let body = find_section(&heading);
        let found = if a.is_positional() {
            let names: Vec<String> = if a.value_names.is_empty() { vec![a.id.clone()] } else { a.value_names.clone() };
            names.iter().any(|n| body.contains(&format!("[{n}]")) || body.contains(&format!("<{n}>")))
        } else {
            a.long.as_ref().map(|l| contains_token(&body, &format!("--{l}"))).unwrap_or(false) || a.short.map(|s| body.lines().any(|l| short_listed(l, s))).unwrap_or(false)
        };
        if must_not {
            if found {
                return Some(("hidden-shown", "argument-hidden-for-mode".into(), format!("argument {} is hidden for {} help but is listed under `{heading}:`", a.id, if mode == Some(true) { "long" } else { "short" })));
            }
            continue;
        }
        if !found {
            return Some(("visible-missing", if a.is_positional() { "positional".into() } else { "option".into() }, format!("argument {} (visible in this mode) is not listed under `{heading}:`", a.id)));
        }
    }
    if !c.has(CmdSetting::FlattenHelp) {
        let heading = c.subcommand_help_heading.clone().unwrap_or_else(|| "Commands".to_string());
        let body = find_section(&heading);
        for s in c.subs.iter().filter(|s| !s.has(CmdSetting::Hide)) {
            if !body.lines().any(|l| l.starts_with("  ") && !l.starts_with("   ") && l[2..].strip_prefix(s.name.as_str()).map(|r| r.chars().next().map(|c| !(c.is_alphanumeric() || c == '_' || c == '-')).unwrap_or(true)).unwrap_or(false)) {
                return Some(("visible-missing", "subcommand".into(), format!("subcommand {} is not listed under `{heading}:`", s.name)));
            }
        }
    }
    None
}

impl Engine for HelpSim {
    type Sc = C12Sc;
    fn prop(&self) -> &'static str {
        "C12"
    }
    fn meta(&self) -> Meta {
        Meta {
            engine: "cmdsim/helpsim",
            level: "exploration",
            rule: "a scenario is a command tree (depth <= 3, help-heavy swarm: short-only/long-only flags, counts, positionals, custom headings, next-line help, hidden items of every kind, possible values, multi-line/wide/zero-width text, flatten_help, custom templates) plus a history of 1-12 events on ONE long-lived Command: Resize (COLUMNS/LINES of the worker process set to 0..=200, huge, garbage, non-UTF-8 or unset), Render short/long/usage at any subcommand level, ParseHelp (-h/--help/help <path> at any level), WriteHelp through a fault-injecting sink, ordinary parses and build(). Non-trivial = >= 2 events or >= 1 ambient/sink fault fired, with >= 1 text checked; distinct = distinct scenario hash. Added during the build phase: AddSub (a subcommand added after build), ignore_errors trees, required options, non-UTF-8 defaults, multi-byte possible values, shared display orders, arguments hidden from both help modes",
            real_components: &["clap_builder::output::help_template", "clap_builder::output::usage", "clap_builder::output::textwrap", "Command::render_help/render_long_help/render_usage/write_help", "Parser help dispatch", "the process environment variables COLUMNS/LINES (terminal_size() sees no tty: worker stdio is piped)"],
            stub_components: &["FaultyWriter (io::Write sink driven by a fault plan)", "the simulated terminal is the COLUMNS/LINES pair"],
            workload_only_clauses: &["which mix of argument shapes shares a section is configuration; the simulator adds the width timeline, the sink and the history"],
            assumptions: &["hidden-argument absence is asserted only for isolated optional hidden arguments (usage legitimately prints required and group-member arguments)", "listing is asserted only for the default template", "the resize clause (aged render == fresh render at the current width) is asserted for render-only histories and trees without flatten_help (see C11 known findings)"],
            abort_is_violation: true,
        }
    }
    fn runs(&self, tier: Tier) -> u64 {
        match tier {
            Tier::Quick => 300_000,
            Tier::Thorough => 10_000_000,
        }
    }
    fn heartbeat(&self) -> u64 {
        64
    }

    fn gen(&self, rng: &mut Rng, _tier: Tier) -> C12Sc {
        let mut cfg = GenCfg::help_heavy();
        // a help request is not an error to be ignored: it must surface under ignore_errors too
        cfg.allow_ignore_errors = true;
        let mut spec = gen_tree(rng, &cfg);
        for _ in 0..3 {
            if gate(&spec).is_ok() {
                break;
            }
            spec = gen_tree(rng, &cfg);
        }
        let n_ops = if rng.chance(1, 4) { rng.urange(1, 3) } else { rng.urange(2, 12) };
        let mut ops = Vec::new();
        let render_only = rng.chance(1, 3);
        for _ in 0..n_ops {
            let path: Vec<u8> = (0..rng.usize(3)).map(|_| rng.below(4) as u8).collect();
            let k = if render_only { rng.weighted(&[4, 8, 0, 0, 0, 0, 0]) } else { rng.weighted(&[4, 8, 5, 3, 2, 1, 1]) };
            ops.push(match k {
                0 => HOp::Resize(gen_width(rng), if rng.chance(1, 4) { gen_width(rng) } else { Width::Unset }),
                1 => HOp::Render(path, *rng.pick(&[Mode::Short, Mode::Short, Mode::Long, Mode::Long, Mode::Usage])),
                2 => HOp::ParseHelp(path, *rng.pick(&[HelpHow::ShortFlag, HelpHow::LongFlag, HelpHow::HelpSubcommand])),
                3 => HOp::WriteHelp(rng.coin(), gen_plan(rng, 1, 600, true)),
                4 => HOp::Parse(gen_argv(rng, &spec, 6)),
                5 => HOp::Build,
                _ => HOp::AddSub,
            });
        }
        C12Sc { spec, ops }
    }

    fn exec(&self, sc: &C12Sc, log: &mut Log) -> Outcome {
        let mut out = Outcome::default();
        std::env::remove_var("COLUMNS");
        std::env::remove_var("LINES");
        if let Err(why) = gate(&sc.spec) {
            out.count("misc.specs_rejected_by_gate");
            ev!(log, "gate rejected: {why}");
            return out;
        }
        let r = catch(|| exec_ops(sc, log, &mut out));
        std::env::remove_var("COLUMNS");
        std::env::remove_var("LINES");
        if let Err(p) = r {
            if panic_in_harness(&p) {
                out.violate("HARNESS-PANIC", short_file(&p), format!("{} at {}", p.msg, p.loc));
            } else {
                out.violate("panic", short_file(&p), format!("{} at {}", p.msg, p.loc));
            }
        }
        out
    }

    fn shrink(&self, sc: &C12Sc) -> Vec<C12Sc> {
        let mut c = Vec::new();
        let n = sc.ops.len();
        for i in 0..n {
            if n > 1 {
                let mut s = sc.clone();
                s.ops.remove(i);
                c.push(s);
            }
        }
        for sp in shrink_spec(&sc.spec) {
            let mut s = sc.clone();
            s.spec = sp;
            c.push(s);
        }
        for i in 0..n {
            match &sc.ops[i] {
                HOp::Render(p, m) if !p.is_empty() => {
                    let mut s = sc.clone();
                    s.ops[i] = HOp::Render(p[..p.len() - 1].to_vec(), *m);
                    c.push(s);
                }
                HOp::ParseHelp(p, m) if !p.is_empty() => {
                    let mut s = sc.clone();
                    s.ops[i] = HOp::ParseHelp(p[..p.len() - 1].to_vec(), *m);
                    c.push(s);
                }
                HOp::WriteHelp(l, plan) => {
                    for q in shrink_plan(plan) {
                        let mut s = sc.clone();
                        s.ops[i] = HOp::WriteHelp(*l, q);
                        c.push(s);
                    }
                }
                HOp::Parse(a) => {
                    for v in shrink_argv(a) {
                        let mut s = sc.clone();
                        s.ops[i] = HOp::Parse(v);
                        c.push(s);
                    }
                }
                HOp::Resize(w, l) => {
                    if *l != Width::Unset {
                        let mut s = sc.clone();
                        s.ops[i] = HOp::Resize(w.clone(), Width::Unset);
                        c.push(s);
                    }
                    if let Width::Cols(x) = w {
                        for y in [80u32, x / 2, x.saturating_sub(1)] {
                            if y != *x {
                                let mut s = sc.clone();
                                s.ops[i] = HOp::Resize(Width::Cols(y), l.clone());
                                c.push(s);
                            }
                        }
                    }
                }
                _ => {}
            }
        }
        c
    }

    fn fixed(&self) -> Vec<(String, C12Sc)> {
        let mut v = ArgSpec::new("v", Action::Count);
        v.short = Some('v');
        let mut spec = CmdSpec { name: "prog".into(), ..Default::default() };
        spec.args.push(v);
        spec.set(CmdSetting::DisableHelpFlag);
        vec![("lone-short-count-flag".into(), C12Sc { spec, ops: vec![HOp::Render(vec![], Mode::Short)] })]
    }
}

fn globals_for<'a>(chain: &[&'a CmdSpec]) -> Vec<&'a ArgSpec> {
    let mut v = Vec::new();
    for c in &chain[..chain.len() - 1] {
        for a in c.args.iter().filter(|a| a.global) {
            v.push(a);
        }
    }
    v
}

fn exec_ops(sc: &C12Sc, log: &mut Log, out: &mut Outcome) {
    let mut aged = build_cmd(&sc.spec);
    let mut shape = ShapeHasher::new();
    shape.add(sc.spec.feature_bits());
    let mut cols = Width::Unset;
    let mut lines = Width::Unset;
    let mut render_only_history = true;
    let mut late_subs = 0u32;
    let flatten_anywhere = {
        let mut f = false;
        sc.spec.walk(&mut |c, _| f |= c.has(CmdSetting::FlattenHelp), 0);
        f
    };
    out.nontrivial = sc.ops.len() >= 2;
    for (i, op) in sc.ops.iter().enumerate() {
        out.steps += 1;
        match op {
            HOp::Resize(w, l) => {
                apply_width("COLUMNS", w);
                apply_width("LINES", l);
                cols = w.clone();
                lines = l.clone();
                shape.add(1);
                out.nontrivial = true;
                out.count(match w {
                    Width::Unset => "ambient.columns_unset",
                    Width::Cols(0) => "ambient.columns_zero",
                    Width::Cols(x) if *x < 12 => "ambient.columns_tiny",
                    Width::Cols(x) if *x > 200 => "ambient.columns_huge",
                    Width::Cols(_) => "ambient.columns_set",
                    Width::Garbage(_) => "ambient.columns_garbage",
                });
                ev!(log, "{i} resize {:?} {:?}", w, l);
            }
            HOp::Render(path, mode) => {
                let (level, chain) = spec_at(&sc.spec, path);
                shape.add(2 + *mode as u64);
                if chain.len() > 1 {
                    // a sub-level is only a complete command once the root has been built
                    // (inherited globals, propagated settings): the documented way to render it
                    if catch(|| aged.build()).is_err() {
                        out.count("obs.build_panics_on_aged");
                        continue;
                    }
                }
                let text = {
                    let Some(c) = cmd_at(&mut aged, &chain) else { continue };
                    match mode {
                        Mode::Short => c.render_help().to_string(),
                        Mode::Long => c.render_long_help().to_string(),
                        Mode::Usage => c.render_usage().to_string(),
                    }
                };
                out.count(match mode {
                    Mode::Short => "op.render_help",
                    Mode::Long => "op.render_long_help",
                    Mode::Usage => "op.render_usage",
                });
                ev!(log, "{i} render {:?} {:?} -> {} bytes h={:x}", path, mode, text.len(), crate::rng::fnv1a(text.as_bytes()));
                out.comparisons += 1;
                // globals are only propagated into a level once its parent has been built; direct renders
                // of an unbuilt sub-level therefore only promise the level's own arguments
                let inherited: Vec<&ArgSpec> = Vec::new();
                let mode_flag = match mode {
                    Mode::Short => Some(false),
                    Mode::Long => Some(true),
                    Mode::Usage => None,
                };
                if let Some((clause, site, d)) = check_text(level, &inherited, &text, mode_flag, *mode == Mode::Usage) {
                    out.violate(clause, site, format!("op {i} render {:?} of `{}` at COLUMNS={:?}: {d}\n{}", mode, level.name, cols, crate::cmdsim::safe_slice(&text, 0, 1500)));
                    return;
                }
                // the ambient width is honoured at every render: rendering under COLUMNS=w equals rendering
                // a fresh command whose width is given explicitly (root level, no explicit term_width in the spec)
                if chain.len() == 1 && sc.spec.term_width.is_none() && *mode != Mode::Usage {
                    let ambient = match &cols {
                        Width::Cols(c) => *c as usize,
                        Width::Garbage(b) => b.as_str().and_then(|s| s.parse::<usize>().ok()).unwrap_or(100),
                        Width::Unset => 100,
                    };
                    let eff = match sc.spec.max_term_width {
                        None | Some(0) => ambient,
                        Some(m) => ambient.min(m),
                    };
                    if eff > 0 && !flatten_anywhere && render_only_history {
                        let mut spec2 = sc.spec.clone();
                        spec2.term_width = Some(eff);
                        let mut fresh = build_cmd(&spec2);
                        let ft = match mode {
                            Mode::Short => fresh.render_help().to_string(),
                            _ => fresh.render_long_help().to_string(),
                        };
                        out.comparisons += 1;
                        out.count("probe.ambient_vs_explicit_width_compared");
                        if ft != text {
                            out.violate("ambient-width-not-honoured", "render", format!("op {i}: {:?} of `{}` under COLUMNS={:?} differs from the same render with term_width({eff})\n--- ambient\n{}\n--- explicit\n{}", mode, level.name, cols, crate::cmdsim::safe_slice(&text, 0, 1200), crate::cmdsim::safe_slice(&ft, 0, 1200)));
                            return;
                        }
                    }
                }
                // no layout cached across a resize: a fresh command renders the same bytes at the current width
                if render_only_history && !flatten_anywhere {
                    let mut fresh = build_cmd(&sc.spec);
                    if chain.len() > 1 {
                        fresh.build();
                    }
                    let ft = cmd_at(&mut fresh, &chain).map(|c| match mode {
                        Mode::Short => c.render_help().to_string(),
                        Mode::Long => c.render_long_help().to_string(),
                        Mode::Usage => c.render_usage().to_string(),
                    });
                    if let Some(ft) = ft {
                        out.comparisons += 1;
                        out.count("probe.aged_vs_fresh_render_compared");
                        if ft != text {
                            out.violate("layout-cached", "aged-vs-fresh-render", format!("op {i}: {:?} of `{}` at COLUMNS={:?} LINES={:?} differs between the long-lived command and a fresh one\n--- aged\n{}\n--- fresh\n{}", mode, level.name, cols, lines, crate::cmdsim::safe_slice(&text, 0, 1200), crate::cmdsim::safe_slice(&ft, 0, 1200)));
                            return;
                        }
                    }
                }
            }
            HOp::ParseHelp(path, how) => {
                render_only_history = false;
                let (level, chain) = spec_at(&sc.spec, path);
                shape.add(10 + *how as u64);
                // words addressing the level
                let mut argv: Vec<OsString> = vec![OsString::from("prog")];
                let names: Vec<String> = chain[1..].iter().map(|c| c.name.clone()).collect();
                let applicable = match how {
                    HelpHow::HelpSubcommand => {
                        argv.push("help".into());
                        argv.extend(names.iter().map(OsString::from));
                        !sc.spec.has(CmdSetting::DisableHelpSubcommand) && !sc.spec.subs.is_empty() && !sc.spec.has(CmdSetting::NoBinaryName) && !sc.spec.has(CmdSetting::Multicall)
                    }
                    _ => {
                        argv.extend(names.iter().map(OsString::from));
                        argv.push(if *how == HelpHow::ShortFlag { "-h".into() } else { "--help".into() });
                        !level.has(CmdSetting::DisableHelpFlag) && !sc.spec.has(CmdSetting::NoBinaryName) && !sc.spec.has(CmdSetting::Multicall)
                    }
                };
                let r = outcome_of(catch(|| aged.try_get_matches_from_mut(argv.iter().cloned())));
                out.count("op.parse_help");
                ev!(log, "{i} parse_help {:?} -> {}", argv, r.class());
                match &r {
                    POut::Panic { file, msg } => {
                        out.violate("panic", file.clone(), format!("op {i}: help request {:?} panicked: {msg}", argv));
                        return;
                    }
                    POut::Err { kind: ErrorKind::DisplayHelp, rendered, .. } => {
                        out.comparisons += 1;
                        // help for the level the flag was given at
                        let inherited = globals_for(&chain);
                        if let Some((clause, site, d)) = check_text(level, &inherited, rendered, None, false) {
                            out.violate(clause, site, format!("op {i}: help request {:?} for level `{}`: {d}\n{}", argv, level.name, crate::cmdsim::safe_slice(rendered, 0, 1500)));
                            return;
                        }
                        // `--help` is the long form: an argument that is only hidden from SHORT help is listed (its
                        // mere existence makes long help differ from short help, whatever else the level has)
                        if *how == HelpHow::LongFlag && is_default_template(level) && !level.has(CmdSetting::FlattenHelp) {
                            for a in level.args.iter().chain(inherited.iter().copied()).filter(|a| a.hide_short_help && !a.hide && !a.hide_long_help) {
                                let toks: Vec<String> = match (&a.long, a.short) {
                                    (Some(l), _) => vec![format!("--{l}")],
                                    (None, Some(c)) => vec![format!("-{c}")],
                                    _ => {
                                        if a.value_names.is_empty() {
                                            vec![a.id.to_uppercase(), a.id.clone()]
                                        } else {
                                            a.value_names.clone()
                                        }
                                    }
                                };
                                if !toks.iter().any(|t| contains_token(rendered, t)) {
                                    out.violate("visible-missing", "long-help-error/hide-short-help-argument", format!("op {i}: help request {:?} (long form) for level `{}` does not list argument {}, which is hidden from short help only\n{}", argv, level.name, a.id, crate::cmdsim::safe_slice(rendered, 0, 1500)));
                                    return;
                                }
                            }
                        }
                        if let Some(d) = wrong_level(&sc.spec, level, &chain, rendered) {
                            out.violate("help-of-wrong-level", format!("{how:?}"), format!("op {i}: help request {:?} for level `{}`: {d}\n{}", argv, level.name, crate::cmdsim::safe_slice(rendered, 0, 1500)));
                            return;
                        }
                        out.count("probe.help_level_checked");
                    }
                    other => {
                        // a path may be unreachable for legitimate reasons (required args missing before a
                        // subcommand is not one of them: help short-circuits); only the clean cases are asserted
                        if applicable && chain.iter().all(|c| plain_dispatch(c)) {
                            out.violate("help-not-displayed", format!("{how:?}"), format!("op {i}: help request {:?} answered {} instead of DisplayHelp", argv, other.class()));
                            return;
                        }
                    }
                }
            }
            HOp::WriteHelp(long, plan) => {
                shape.add(20);
                for (_, f) in &plan.faults {
                    shape.add_str(f.name());
                }
                let reference = if *long { aged.render_long_help().to_string() } else { aged.render_help().to_string() };
                let mut w = FaultyWriter::new(plan);
                let res = if *long { aged.write_long_help(&mut w) } else { aged.write_help(&mut w) };
                for f in &w.fired {
                    out.count_dyn(format!("fault.{f}"));
                }
                if !w.fired.is_empty() {
                    out.nontrivial = true;
                }
                out.count("op.write_help");
                ev!(log, "{i} write_help long={long} calls={} delivered={} hard={} -> ok={}", w.calls, w.delivered.len(), w.hard_fired, res.is_ok());
                out.comparisons += 1;
                if w.hard_fired {
                    if res.is_ok() && !(plan.flush_error && w.fired == ["flush_error"]) {
                        out.violate("sink-error-swallowed", "write_help", format!("op {i}: a hard sink error fired ({:?}) but write_help returned Ok", w.fired));
                        return;
                    }
                    if !reference.as_bytes().starts_with(&w.delivered) {
                        out.violate("sink-garbage", "write_help", format!("op {i}: delivered bytes are not a prefix of the reference under {:?}", w.fired));
                        return;
                    }
                } else {
                    if let Err(e) = &res {
                        out.violate("sink-benign-fault-not-tolerated", "write_help", format!("op {i}: only benign sink faults fired ({:?}) but write_help returned {e}", w.fired));
                        return;
                    }
                    if w.delivered != reference.as_bytes() {
                        out.violate("sink-bytes-differ", "write_help", format!("op {i}: under benign sink faults {:?} the delivered {} bytes differ from render_help ({} bytes)", w.fired, w.delivered.len(), reference.len()));
                        return;
                    }
                }
            }
            HOp::Parse(argv) => {
                render_only_history = false;
                shape.add(30);
                let full = full_argv(&sc.spec, "prog", argv);
                let r = outcome_of(catch(|| aged.try_get_matches_from_mut(full.iter().cloned())));
                out.count("op.parse");
                ev!(log, "{i} parse {:?} -> {}", argv, r.class());
                if let POut::Err { kind: ErrorKind::DisplayHelp | ErrorKind::DisplayHelpOnMissingArgumentOrSubcommand, rendered, .. } = &r {
                    // any help text produced on the way is subject to the padding bound
                    let run = longest_space_run(rendered);
                    let bound = name_column_bound(&sc.spec) + 64 + author_text_space_run(&sc.spec);
                    out.comparisons += 1;
                    if run > bound {
                        out.violate("unbounded-padding", "space-run", format!("op {i}: help produced by {:?} has a run of {run} spaces (bound {bound})", argv));
                        return;
                    }
                }
                if let POut::Panic { file, .. } = &r {
                    out.count_dyn(format!("obs.parse_panics_in_{file}"));
                }
            }
            HOp::Build => {
                render_only_history = false;
                shape.add(31);
                let _ = catch(|| aged.build());
                out.count("op.build");
                ev!(log, "{i} build");
            }
            HOp::AddSub => {
                // only where the definition already has subcommands: a first subcommand can make a valid
                // definition invalid (e.g. a required `last` positional)
                if sc.spec.subs.is_empty() {
                    continue;
                }
                render_only_history = false;
                shape.add(32);
                late_subs += 1;
                let late = Command::new(format!("late9{late_subs:02}")).about("late addition").arg(clap::Arg::new("lateopt").long(format!("lateopt9{late_subs:02}")).action(clap::ArgAction::Set).help("late option"));
                aged = std::mem::take(&mut aged).subcommand(late);
                out.count("op.add_subcommand_late");
                ev!(log, "{i} add_sub late9{late_subs:02}");
            }
        }
    }
    out.shape = shape.get();
}

/// Levels reached by plain subcommand-name dispatch (no setting that legitimately changes what
/// `prog a b --help` means).
fn plain_dispatch(c: &CmdSpec) -> bool {
    !c.has(CmdSetting::AllowExternalSubcommands)
}

/// The help text must be that of `level`: its usage line names the level, and no optional
/// argument that exists only at another level shows up (unless flattening prints subtrees).
fn wrong_level(root: &CmdSpec, level: &CmdSpec, chain: &[&CmdSpec], text: &str) -> Option<String> {
    // (a flattened level whose subcommands override their usage prints only those custom lines)
    fn any_override(c: &CmdSpec) -> bool {
        c.override_usage.is_some() || c.subs.iter().any(any_override)
    }
    let flattened_custom = level.has(CmdSetting::FlattenHelp) && level.subs.iter().any(any_override);
    if level.override_usage.is_none() && level.help_template.is_none() && chain.len() > 1 && !flattened_custom {
        let usage_lines: Vec<&str> = text.lines().skip_while(|l| !l.starts_with("Usage:")).take_while(|l| !l.is_empty()).collect();
        if !usage_lines.is_empty() && !usage_lines.iter().any(|l| contains_token(l, &level.name)) {
            return Some(format!("the usage line does not name `{}`", level.name));
        }
    }
    if level.has(CmdSetting::FlattenHelp) {
        return None;
    }
    let mut bad = None;
    root.walk(
        &mut |c, _| {
            if std::ptr::eq(c, level) || bad.is_some() {
                return;
            }
            let is_ancestor = chain.iter().any(|x| std::ptr::eq(*x, c));
            for a in &c.args {
                if a.global && is_ancestor {
                    continue;
                }
                // ancestors' required/related arguments legitimately appear in the usage path
                let plain_optional = !a.required && a.required_unless.is_empty() && a.required_if_eq.is_empty() && !c.groups.iter().any(|g| g.args.contains(&a.id) || g.requires.contains(&a.id)) && !c.args.iter().any(|o| o.requires.contains(&a.id) || o.requires_ifs.iter().any(|r| r.1 == a.id)) && !a.is_positional();
                if !plain_optional {
                    continue;
                }
                for s in arg_sentinels(a) {
                    if s.starts_with("--") && contains_token(text, &s) {
                        bad = Some(format!("argument {} of level `{}` ({}) shows up in the help of level `{}`", a.id, c.name, s, level.name));
                        return;
                    }
                }
            }
        },
        0,
    );
    bad
}
