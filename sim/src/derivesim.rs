//! derivesim — histories of `try_update_from` on one derived value, interleaved with
//! parse-equivalence and round-trip checks, over a fixed corpus of derived types compiled
//! against /repo's clap_derive (C15). Every corpus type carries a hand-written mirror
//! (generator, canonical printer, field extraction against the builder API).

use crate::core::*;
use crate::ev;
use crate::rng::Rng;
use clap::{ArgMatches, Args, CommandFactory, Parser, Subcommand, ValueEnum};
use serde::{Deserialize, Serialize};

// ------------------------------------------------------------------------------------------
// corpus

#[derive(ValueEnum, Clone, Copy, Debug, PartialEq, Eq)]
pub enum Mode {
    #[value(alias = "quick", aliases = ["rapid", "speedy"])]
    Fast,
    #[value(name = "slow-mode", alias = "s", alias = "slowly")]
    Slow,
    TwoWords,
    #[value(hide = true, alias = "hush")]
    Secret,
    #[value(skip)]
    #[allow(dead_code)]
    Internal,
}

#[derive(Parser, Clone, Debug, PartialEq)]
#[command(name = "flat")]
pub struct Flat {
    #[arg(long)]
    flag: bool,
    #[arg(short, long, action = clap::ArgAction::Count)]
    verbose: u8,
    #[arg(long)]
    req: String,
    #[arg(long)]
    opt: Option<String>,
    #[arg(long)]
    optopt: Option<Option<String>>,
    #[arg(long)]
    many: Vec<String>,
    #[arg(long)]
    optmany: Option<Vec<String>>,
    #[arg(long, default_value_t = 7)]
    num: i32,
    #[arg(long, value_delimiter = ',')]
    list: Vec<u8>,
    #[arg(long, value_enum)]
    mode: Option<Mode>,
    #[arg(long, value_enum, default_value_t = Mode::Fast)]
    dmode: Mode,
    pos: Option<String>,
    #[arg(skip)]
    skipped: u32,
    #[command(flatten)]
    limits: Box<Limits>,
    /// a scalar field whose argument can hold several values: the field is the first of them
    #[arg(long, value_delimiter = ',')]
    firstof: Option<String>,
}

/// A flattened group behind a `Box`, with a required member.
#[derive(Args, Clone, Debug, PartialEq)]
pub struct Limits {
    #[arg(long)]
    lmin: Option<u8>,
    #[arg(long)]
    cap: u8,
}

#[derive(Args, Clone, Debug, PartialEq)]
pub struct Common {
    #[arg(long)]
    level: Option<u8>,
    #[arg(long)]
    dry: bool,
}

#[derive(Args, Clone, Debug, PartialEq)]
pub struct RemoveArgs {
    #[arg(long)]
    target: String,
    #[arg(long)]
    recursive: bool,
}

#[derive(Subcommand, Clone, Debug, PartialEq)]
pub enum Inner {
    Start {
        #[arg(long)]
        port: Option<u16>,
    },
    Stop,
}

#[derive(Subcommand, Clone, Debug, PartialEq)]
pub enum Cmd {
    Add {
        #[arg(long)]
        name: String,
        #[arg(long)]
        force: bool,
        #[arg(long)]
        tag: Vec<String>,
        /// the value of the global `--glob` as seen from this level
        #[arg(from_global)]
        glob: Option<String>,
    },
    #[command(alias = "rm")]
    Remove(RemoveArgs),
    List,
    #[command(subcommand, subcommand_required = true)]
    Service(Inner),
    #[command(flatten)]
    More(Small),
    #[command(external_subcommand)]
    Ext(Vec<String>),
}

#[derive(Parser, Clone, PartialEq)]
#[command(name = "tree")]
pub struct Tree {
    // (declared first on purpose: the generated constructor and updater handle the fields in declaration
    // order, and nothing that follows a subcommand field may depend on whether a subcommand was given)
    #[command(subcommand)]
    cmd: Cmd,
    #[arg(long, global = true)]
    glob: Option<String>,
    #[command(flatten)]
    common: Common,
}

// (printed in the order glob, common, cmd: stored scenarios carry the expected text of a round-trip)
impl std::fmt::Debug for Tree {
    fn fmt(&self, f: &mut std::fmt::Formatter<'_>) -> std::fmt::Result {
        f.debug_struct("Tree").field("glob", &self.glob).field("common", &self.common).field("cmd", &self.cmd).finish()
    }
}

#[derive(Subcommand, Clone, Debug, PartialEq)]
pub enum Small {
    Ping {
        #[arg(long)]
        count: Option<u8>,
    },
    Pong,
}

#[derive(Parser, Clone, Debug, PartialEq)]
#[command(name = "optsub")]
pub struct OptSub {
    #[arg(long)]
    quiet: bool,
    #[arg(long, num_args = 1..)]
    groups: Vec<String>,
    #[arg(long, num_args = 0..)]
    ogroups: Option<Vec<String>>,
    #[command(subcommand)]
    cmd: Option<Small>,
    rest: Vec<String>,
}

#[derive(Args, Clone, Debug, PartialEq)]
pub struct Creds {
    // every argument of an optional flattened group has to be optional itself: clap keeps a required
    // argument required even when the whole group is absent
    #[arg(long)]
    user: Option<String>,
    #[arg(long)]
    pass: Option<String>,
}

#[derive(Parser, Clone, Debug, PartialEq)]
#[command(name = "misc", rename_all = "SCREAMING_SNAKE_CASE")]
pub struct Misc {
    #[arg(long)]
    first_name: Option<String>,
    #[arg(short = 'x', long = "explicit-name", id = "custom_id")]
    renamed: Option<u32>,
    #[arg(long, num_args = 0..=1, default_missing_value = "auto", require_equals = true)]
    color: Option<String>,
    #[command(flatten)]
    creds: Option<Creds>,
    input: String,
    #[arg(last = true)]
    tail: Vec<String>,
}

#[derive(Subcommand, Clone, Debug, PartialEq)]
pub enum Leaf {
    Alpha,
    Beta {
        #[arg(long)]
        k: Option<u8>,
    },
}

#[derive(Subcommand, Clone, Debug, PartialEq)]
pub enum Mid {
    Go {
        #[arg(long)]
        n: Option<u8>,
        #[command(subcommand)]
        deep: Option<Leaf>,
    },
    #[command(subcommand)]
    Svc(Leaf),
    Halt,
}

#[derive(Parser, Clone, Debug, PartialEq)]
#[command(name = "nest")]
pub struct Nest {
    #[arg(long)]
    tag: Option<String>,
    #[command(subcommand)]
    cmd: Option<Mid>,
}

// ------------------------------------------------------------------------------------------
// scenario data

#[derive(Clone, Debug, Hash, Serialize, Deserialize, PartialEq)]
pub enum DOp {
    /// `try_update_from(argv)`; `named` = field paths the tokens name, with the expected Debug text
    Update {
        argv: Vec<String>,
        named: Vec<(String, String)>,
        /// a fault was injected into the tokens: nothing is asserted if the update succeeds anyway
        #[serde(default)]
        injected_fault: bool,
        /// take the other documented route: `command_for_update().try_get_matches_from(argv)` followed by
        /// `update_from_arg_matches(&matches)`
        #[serde(default)]
        via_matches: bool,
    },
    /// `try_parse_from(argv)` compared with `command().try_get_matches_from(argv)` + hand extraction
    Parse { argv: Vec<String> },
    /// `parse(to_argv(v)) == v`: argv printed from a generated value whose Debug text is `expected`
    RoundTrip { argv: Vec<String>, expected: String },
    /// value-enum names and aliases map back to their variant
    EnumProbe,
}

#[derive(Clone, Debug, Hash, Serialize, Deserialize, PartialEq)]
pub struct DeriveSc {
    pub ty: u8,
    pub init_argv: Vec<String>,
    pub ops: Vec<DOp>,
}

pub struct DeriveSim;

// ------------------------------------------------------------------------------------------
// mirrors

fn pick_str(rng: &mut Rng) -> String {
    (*rng.pick(&["a", "bb", "x1", "hello", "v-1", "k=v", "7", "zz top"])).to_string()
}

fn mode_name(m: Mode) -> &'static str {
    match m {
        Mode::Fast => "fast",
        Mode::Slow => "slow-mode",
        Mode::TwoWords => "two-words",
        Mode::Secret => "secret",
        Mode::Internal => "internal",
    }
}

/// (field path, Debug text) pairs of a value, and which paths carry an implicit or explicit default.
trait Mirror: Parser + Clone + PartialEq + std::fmt::Debug {
    fn fields(&self) -> Vec<(String, String)>;
    fn defaulted_paths() -> &'static [&'static str];
    fn from_matches(m: &ArgMatches) -> Result<Self, String>;
    /// (variant tag, path of a required field of that variant): an update that names the variant the value
    /// already holds may leave these out
    fn required_of_variant() -> &'static [(&'static str, &'static str)] {
        &[]
    }
}

fn one<T: Clone + Send + Sync + 'static>(m: &ArgMatches, id: &str) -> Result<Option<T>, String> {
    m.try_get_one::<T>(id).map(|o| o.cloned()).map_err(|e| format!("{id}: {e}"))
}
fn many<T: Clone + Send + Sync + 'static>(m: &ArgMatches, id: &str) -> Result<Option<Vec<T>>, String> {
    m.try_get_many::<T>(id).map(|o| o.map(|v| v.cloned().collect())).map_err(|e| format!("{id}: {e}"))
}
fn occ<T: Clone + Send + Sync + 'static>(m: &ArgMatches, id: &str) -> Result<Option<Vec<Vec<T>>>, String> {
    m.try_get_occurrences::<T>(id).map(|o| o.map(|g| g.map(|v| v.cloned().collect()).collect())).map_err(|e| format!("{id}: {e}"))
}
fn present(m: &ArgMatches, id: &str) -> bool {
    m.try_contains_id(id).unwrap_or(false)
}

impl Mirror for Flat {
    fn fields(&self) -> Vec<(String, String)> {
        vec![
            ("flag".into(), format!("{:?}", self.flag)),
            ("verbose".into(), format!("{:?}", self.verbose)),
            ("req".into(), format!("{:?}", self.req)),
            ("opt".into(), format!("{:?}", self.opt)),
            ("optopt".into(), format!("{:?}", self.optopt)),
            ("many".into(), format!("{:?}", self.many)),
            ("optmany".into(), format!("{:?}", self.optmany)),
            ("num".into(), format!("{:?}", self.num)),
            ("list".into(), format!("{:?}", self.list)),
            ("mode".into(), format!("{:?}", self.mode)),
            ("dmode".into(), format!("{:?}", self.dmode)),
            ("pos".into(), format!("{:?}", self.pos)),
            ("skipped".into(), format!("{:?}", self.skipped)),
            ("limits.lmin".into(), format!("{:?}", self.limits.lmin)),
            ("limits.cap".into(), format!("{:?}", self.limits.cap)),
            ("firstof".into(), format!("{:?}", self.firstof)),
        ]
    }
    fn defaulted_paths() -> &'static [&'static str] {
        &["flag", "verbose", "num", "dmode"]
    }
    fn from_matches(m: &ArgMatches) -> Result<Self, String> {
        Ok(Flat {
            flag: one::<bool>(m, "flag")?.unwrap_or(false),
            verbose: one::<u8>(m, "verbose")?.unwrap_or(0),
            req: one::<String>(m, "req")?.ok_or("req missing")?,
            opt: one::<String>(m, "opt")?,
            optopt: if present(m, "optopt") { Some(one::<String>(m, "optopt")?) } else { None },
            many: many::<String>(m, "many")?.unwrap_or_default(),
            optmany: if present(m, "optmany") { Some(many::<String>(m, "optmany")?.unwrap_or_default()) } else { None },
            num: one::<i32>(m, "num")?.ok_or("num missing")?,
            list: many::<u8>(m, "list")?.unwrap_or_default(),
            mode: one::<Mode>(m, "mode")?,
            dmode: one::<Mode>(m, "dmode")?.ok_or("dmode missing")?,
            pos: one::<String>(m, "pos")?,
            skipped: 0,
            limits: Box::new(Limits { lmin: one::<u8>(m, "lmin")?, cap: one::<u8>(m, "cap")?.ok_or("cap missing")? }),
            firstof: one::<String>(m, "firstof")?,
        })
    }
}

fn gen_flat(rng: &mut Rng) -> Flat {
    Flat {
        flag: rng.coin(),
        verbose: rng.below(4) as u8,
        req: pick_str(rng),
        opt: if rng.coin() { Some(pick_str(rng)) } else { None },
        optopt: match rng.below(3) {
            0 => None,
            1 => Some(None),
            _ => Some(Some(pick_str(rng))),
        },
        many: (0..rng.usize(3)).map(|_| pick_str(rng)).collect(),
        optmany: if rng.coin() { Some((0..rng.urange(1, 2)).map(|_| pick_str(rng)).collect()) } else { None },
        num: *rng.pick(&[7, 0, -3, 42, i32::MAX, i32::MIN]),
        list: (0..rng.usize(3)).map(|_| rng.below(256) as u8).collect(),
        mode: match rng.below(5) {
            0 => None,
            1 => Some(Mode::Fast),
            2 => Some(Mode::Slow),
            3 => Some(Mode::Secret),
            _ => Some(Mode::TwoWords),
        },
        dmode: *rng.pick(&[Mode::Fast, Mode::Slow, Mode::TwoWords, Mode::Secret]),
        pos: if rng.coin() { Some(pick_str(rng)) } else { None },
        skipped: 0,
        limits: Box::new(Limits { lmin: if rng.coin() { Some(rng.below(256) as u8) } else { None }, cap: rng.below(256) as u8 }),
        firstof: if rng.coin() { Some(pick_str(rng).replace(',', "_")) } else { None },
    }
}

/// Tokens naming a subset of Flat's fields. `full` prints every field that differs from "absent".
fn flat_tokens(v: &Flat, which: &dyn Fn(&str) -> bool) -> (Vec<String>, Vec<(String, String)>) {
    let mut a: Vec<String> = Vec::new();
    let mut named: Vec<(String, String)> = Vec::new();
    let mut name = |p: &str, d: String| named.push((p.to_string(), d));
    if which("pos") {
        if let Some(p) = &v.pos {
            a.push(p.clone());
            name("pos", format!("{:?}", v.pos));
        }
    }
    if which("flag") && v.flag {
        a.push("--flag".into());
        name("flag", "true".into());
    }
    if which("verbose") && v.verbose > 0 {
        for _ in 0..v.verbose {
            a.push("-v".into());
        }
        name("verbose", format!("{:?}", v.verbose));
    }
    if which("req") {
        a.push("--req".into());
        a.push(v.req.clone());
        name("req", format!("{:?}", v.req));
    }
    if which("firstof") {
        if let Some(f) = &v.firstof {
            // two delimited values: the scalar field takes the first
            a.push(format!("--firstof={f},zz-second"));
            name("firstof", format!("{:?}", v.firstof));
        }
    }
    if which("cap") {
        a.push(format!("--cap={}", v.limits.cap));
        name("limits.cap", format!("{:?}", v.limits.cap));
    }
    if which("lmin") {
        if let Some(l) = v.limits.lmin {
            a.push(format!("--lmin={l}"));
            name("limits.lmin", format!("{:?}", v.limits.lmin));
        }
    }
    if which("opt") {
        if let Some(o) = &v.opt {
            a.push(format!("--opt={o}"));
            name("opt", format!("{:?}", v.opt));
        }
    }
    if which("many") && !v.many.is_empty() {
        for x in &v.many {
            a.push("--many".into());
            a.push(x.clone());
        }
        name("many", format!("{:?}", v.many));
    }
    if which("optmany") {
        if let Some(xs) = &v.optmany {
            if !xs.is_empty() {
                for x in xs {
                    a.push(format!("--optmany={x}"));
                }
                name("optmany", format!("{:?}", v.optmany));
            }
        }
    }
    if which("num") && v.num != 7 {
        a.push(format!("--num={}", v.num));
        name("num", format!("{:?}", v.num));
    }
    if which("list") && !v.list.is_empty() {
        a.push(format!("--list={}", v.list.iter().map(|x| x.to_string()).collect::<Vec<_>>().join(",")));
        name("list", format!("{:?}", v.list));
    }
    if which("mode") {
        if let Some(m) = v.mode {
            a.push("--mode".into());
            a.push(mode_name(m).into());
            name("mode", format!("{:?}", v.mode));
        }
    }
    if which("dmode") && v.dmode != Mode::Fast {
        a.push("--dmode".into());
        a.push(mode_name(v.dmode).into());
        name("dmode", format!("{:?}", v.dmode));
    }
    if which("optopt") {
        match &v.optopt {
            None => {}
            Some(None) => {
                a.push("--optopt".into());
                name("optopt", format!("{:?}", v.optopt));
            }
            Some(Some(x)) => {
                a.push(format!("--optopt={x}"));
                name("optopt", format!("{:?}", v.optopt));
            }
        }
    }
    (a, named)
}

impl Mirror for Tree {
    fn fields(&self) -> Vec<(String, String)> {
        let mut v = vec![
            ("glob".into(), format!("{:?}", self.glob)),
            ("common.level".into(), format!("{:?}", self.common.level)),
            ("common.dry".into(), format!("{:?}", self.common.dry)),
        ];
        match &self.cmd {
            Cmd::Add { name, force, tag, glob } => {
                v.push(("cmd.variant".into(), "add".into()));
                v.push(("cmd.add.name".into(), format!("{name:?}")));
                v.push(("cmd.add.force".into(), format!("{force:?}")));
                v.push(("cmd.add.tag".into(), format!("{tag:?}")));
                v.push(("cmd.add.glob".into(), format!("{glob:?}")));
            }
            Cmd::Remove(r) => {
                v.push(("cmd.variant".into(), "remove".into()));
                v.push(("cmd.remove.target".into(), format!("{:?}", r.target)));
                v.push(("cmd.remove.recursive".into(), format!("{:?}", r.recursive)));
            }
            Cmd::List => v.push(("cmd.variant".into(), "list".into())),
            Cmd::Service(Inner::Start { port }) => {
                v.push(("cmd.variant".into(), "service.start".into()));
                v.push(("cmd.service.start.port".into(), format!("{port:?}")));
            }
            Cmd::Service(Inner::Stop) => v.push(("cmd.variant".into(), "service.stop".into())),
            Cmd::More(Small::Ping { count }) => {
                v.push(("cmd.variant".into(), "more.ping".into()));
                v.push(("cmd.more.ping.count".into(), format!("{count:?}")));
            }
            Cmd::More(Small::Pong) => v.push(("cmd.variant".into(), "more.pong".into())),
            Cmd::Ext(x) => {
                v.push(("cmd.variant".into(), "ext".into()));
                v.push(("cmd.ext".into(), format!("{x:?}")));
            }
        }
        v
    }
    fn defaulted_paths() -> &'static [&'static str] {
        &["common.dry", "cmd.add.force", "cmd.remove.recursive"]
    }
    fn required_of_variant() -> &'static [(&'static str, &'static str)] {
        &[("add", "cmd.add.name"), ("remove", "cmd.remove.target")]
    }
    fn from_matches(m: &ArgMatches) -> Result<Self, String> {
        let (name, sm) = m.subcommand().ok_or("no subcommand")?;
        // a name that reached the parser as an EXTERNAL subcommand (after `--`) is external even if it spells
        // a declared variant
        let is_external = sm.try_contains_id("").unwrap_or(false);
        let cmd = match name {
            _ if is_external => {
                let mut v = vec![name.to_string()];
                v.extend(many::<std::ffi::OsString>(sm, "")?.unwrap_or_default().into_iter().map(|o| o.to_string_lossy().to_string()));
                Cmd::Ext(v)
            }
            "ping" => Cmd::More(Small::Ping { count: one::<u8>(sm, "count")? }),
            "pong" => Cmd::More(Small::Pong),
            "add" => Cmd::Add {
                name: one::<String>(sm, "name")?.ok_or("name missing")?,
                force: one::<bool>(sm, "force")?.unwrap_or(false),
                tag: many::<String>(sm, "tag")?.unwrap_or_default(),
                glob: one::<String>(sm, "glob")?,
            },
            "remove" => Cmd::Remove(RemoveArgs { target: one::<String>(sm, "target")?.ok_or("target missing")?, recursive: one::<bool>(sm, "recursive")?.unwrap_or(false) }),
            "list" => Cmd::List,
            "service" => {
                let (n2, s2) = sm.subcommand().ok_or("no inner subcommand")?;
                Cmd::Service(match n2 {
                    "start" => Inner::Start { port: one::<u16>(s2, "port")? },
                    "stop" => Inner::Stop,
                    other => return Err(format!("unknown inner {other}")),
                })
            }
            ext => {
                let mut v = vec![ext.to_string()];
                v.extend(many::<std::ffi::OsString>(sm, "")?.unwrap_or_default().into_iter().map(|o| o.to_string_lossy().to_string()));
                Cmd::Ext(v)
            }
        };
        Ok(Tree { glob: one::<String>(m, "glob")?, common: Common { level: one::<u8>(m, "level")?, dry: one::<bool>(m, "dry")?.unwrap_or(false) }, cmd })
    }
}

fn gen_tree_val(rng: &mut Rng) -> Tree {
    let glob = if rng.coin() { Some(pick_str(rng)) } else { None };
    let cmd = match rng.below(9) {
        // (a from_global field holds what the global holds)
        0 | 1 => Cmd::Add { name: pick_str(rng), force: rng.coin(), tag: (0..rng.usize(3)).map(|_| pick_str(rng)).collect(), glob: glob.clone() },
        2 => Cmd::Remove(RemoveArgs { target: pick_str(rng), recursive: rng.coin() }),
        3 => Cmd::List,
        4 => Cmd::Service(if rng.coin() { Inner::Start { port: if rng.coin() { Some(rng.below(65536) as u16) } else { None } } } else { Inner::Stop }),
        5 | 6 => Cmd::More(if rng.coin() { Small::Ping { count: if rng.coin() { Some(rng.below(256) as u8) } else { None } } } else { Small::Pong }),
        7 => Cmd::Ext(vec!["external".into(), "x".into(), "--y".into()]),
        // an external subcommand may spell a declared variant (it is then written after `--`)
        _ => Cmd::Ext((*rng.pick(&[&["list", "now"][..], &["list"][..], &["pong", "x"][..], &["add", "--name=z"][..], &["rm"][..]])).iter().map(|s| s.to_string()).collect()),
    };
    Tree { glob, common: Common { level: if rng.coin() { Some(rng.below(256) as u8) } else { None }, dry: rng.coin() }, cmd }
}

fn tree_tokens(v: &Tree, top: bool, sub: bool) -> (Vec<String>, Vec<(String, String)>) {
    let mut a = Vec::new();
    let mut named = Vec::new();
    if top {
        if let Some(g) = &v.glob {
            a.push(format!("--glob={g}"));
            named.push(("glob".to_string(), format!("{:?}", v.glob)));
        }
        if let Some(l) = v.common.level {
            a.push(format!("--level={l}"));
            named.push(("common.level".to_string(), format!("{:?}", v.common.level)));
        }
        if v.common.dry {
            a.push("--dry".into());
            named.push(("common.dry".to_string(), "true".into()));
        }
    }
    if sub {
        match &v.cmd {
            Cmd::Add { name, force, tag, glob: _ } => {
                named.push(("cmd.variant".to_string(), "add".into()));
                if top && v.glob.is_some() {
                    // the global named at the top is what the from_global field of this level shows
                    named.push(("cmd.add.glob".to_string(), format!("{:?}", v.glob)));
                }
                a.push("add".into());
                a.push(format!("--name={name}"));
                named.push(("cmd.add.name".to_string(), format!("{name:?}")));
                if *force {
                    a.push("--force".into());
                    named.push(("cmd.add.force".to_string(), "true".into()));
                }
                for t in tag {
                    a.push(format!("--tag={t}"));
                }
                if !tag.is_empty() {
                    named.push(("cmd.add.tag".to_string(), format!("{tag:?}")));
                }
            }
            Cmd::Remove(r) => {
                named.push(("cmd.variant".to_string(), "remove".into()));
                a.push("remove".into());
                a.push(format!("--target={}", r.target));
                named.push(("cmd.remove.target".to_string(), format!("{:?}", r.target)));
                if r.recursive {
                    a.push("--recursive".into());
                    named.push(("cmd.remove.recursive".to_string(), "true".into()));
                }
            }
            Cmd::List => {
                named.push(("cmd.variant".to_string(), "list".into()));
                a.push("list".into());
            }
            Cmd::Service(Inner::Start { port }) => {
                named.push(("cmd.variant".to_string(), "service.start".into()));
                a.push("service".into());
                a.push("start".into());
                if let Some(p) = port {
                    a.push(format!("--port={p}"));
                    named.push(("cmd.service.start.port".to_string(), format!("{port:?}")));
                }
            }
            Cmd::Service(Inner::Stop) => {
                named.push(("cmd.variant".to_string(), "service.stop".into()));
                a.push("service".into());
                a.push("stop".into());
            }
            Cmd::More(Small::Ping { count }) => {
                named.push(("cmd.variant".to_string(), "more.ping".into()));
                a.push("ping".into());
                if let Some(c) = count {
                    a.push(format!("--count={c}"));
                    named.push(("cmd.more.ping.count".to_string(), format!("{count:?}")));
                }
            }
            Cmd::More(Small::Pong) => {
                named.push(("cmd.variant".to_string(), "more.pong".into()));
                a.push("pong".into());
            }
            Cmd::Ext(x) => {
                named.push(("cmd.variant".to_string(), "ext".into()));
                named.push(("cmd.ext".to_string(), format!("{x:?}")));
                if x.first().map(|w| ["add", "remove", "rm", "list", "service", "ping", "pong", "help"].contains(&w.as_str())).unwrap_or(false) {
                    a.push("--".into());
                }
                a.extend(x.iter().cloned());
            }
        }
    }
    (a, named)
}

impl Mirror for OptSub {
    fn fields(&self) -> Vec<(String, String)> {
        let mut v = vec![
            ("quiet".into(), format!("{:?}", self.quiet)),
            ("groups".into(), format!("{:?}", self.groups)),
            ("ogroups".into(), format!("{:?}", self.ogroups)),
            ("rest".into(), format!("{:?}", self.rest)),
        ];
        match &self.cmd {
            None => v.push(("cmd.variant".into(), "none".into())),
            Some(Small::Ping { count }) => {
                v.push(("cmd.variant".into(), "ping".into()));
                v.push(("cmd.ping.count".into(), format!("{count:?}")));
            }
            Some(Small::Pong) => v.push(("cmd.variant".into(), "pong".into())),
        }
        v
    }
    fn defaulted_paths() -> &'static [&'static str] {
        &["quiet"]
    }
    fn from_matches(m: &ArgMatches) -> Result<Self, String> {
        let cmd = match m.subcommand() {
            None => None,
            Some(("ping", sm)) => Some(Small::Ping { count: one::<u8>(sm, "count")? }),
            Some(("pong", _)) => Some(Small::Pong),
            Some((o, _)) => return Err(format!("unknown subcommand {o}")),
        };
        Ok(OptSub { quiet: one::<bool>(m, "quiet")?.unwrap_or(false), groups: many::<String>(m, "groups")?.unwrap_or_default(), ogroups: if present(m, "ogroups") { Some(many::<String>(m, "ogroups")?.unwrap_or_default()) } else { None }, cmd, rest: many::<String>(m, "rest")?.unwrap_or_default() })
    }
}

fn gen_optsub(rng: &mut Rng) -> OptSub {
    let grp = |rng: &mut Rng, lo: usize| -> Vec<String> { (0..rng.urange(lo, 3)).map(|_| (*rng.pick(&["g1", "g2", "g3"])).to_string()).collect() };
    let g = grp(rng, 0);
    let og = if rng.coin() { Some(grp(rng, 0)) } else { None };
    OptSub {
        quiet: rng.coin(),
        groups: g,
        ogroups: og,
        cmd: match rng.below(3) {
            0 => None,
            1 => Some(Small::Ping { count: if rng.coin() { Some(rng.below(256) as u8) } else { None } }),
            _ => Some(Small::Pong),
        },
        rest: (0..rng.usize(3)).map(|_| (*rng.pick(&["r1", "r2", "r3"])).to_string()).collect(),
    }
}

fn optsub_tokens(v: &OptSub, which: &dyn Fn(&str) -> bool) -> (Vec<String>, Vec<(String, String)>) {
    let mut a = Vec::new();
    let mut named = Vec::new();
    if which("quiet") && v.quiet {
        a.push("--quiet".into());
        named.push(("quiet".to_string(), "true".into()));
    }
    // multi-value options are closed by the next option token, so positionals go last, after `--`
    if which("groups") && !v.groups.is_empty() {
        a.push("--groups".into());
        a.extend(v.groups.iter().cloned());
        named.push(("groups".to_string(), format!("{:?}", v.groups)));
    }
    if which("ogroups") {
        if let Some(gs) = &v.ogroups {
            a.push("--ogroups".into());
            a.extend(gs.iter().cloned());
            named.push(("ogroups".to_string(), format!("{:?}", v.ogroups)));
        }
    }
    // a multi-value option stays open until the next option token: a subcommand name or a positional
    // printed right after it would be swallowed, so those are only printed when nothing is open
    let open_multi = named.iter().any(|(n, _)| n == "groups" || n == "ogroups") && a.last().map(|t| t != "--quiet").unwrap_or(false);
    if which("cmd") && !open_multi {
        if let Some(c) = &v.cmd {
            match c {
                Small::Ping { count } => {
                    a.push("ping".into());
                    named.push(("cmd.variant".to_string(), "ping".into()));
                    if let Some(n) = count {
                        a.push(format!("--count={n}"));
                        named.push(("cmd.ping.count".to_string(), format!("{count:?}")));
                    }
                }
                Small::Pong => {
                    a.push("pong".into());
                    named.push(("cmd.variant".to_string(), "pong".into()));
                }
            }
            return (a, named);
        }
    }
    if which("rest") && !v.rest.is_empty() && (v.cmd.is_none() || open_multi) {
        a.push("--".into());
        a.extend(v.rest.iter().cloned());
        named.push(("rest".to_string(), format!("{:?}", v.rest)));
    }
    (a, named)
}

impl Mirror for Misc {
    fn fields(&self) -> Vec<(String, String)> {
        let mut v = vec![
            ("first_name".into(), format!("{:?}", self.first_name)),
            ("renamed".into(), format!("{:?}", self.renamed)),
            ("color".into(), format!("{:?}", self.color)),
            ("input".into(), format!("{:?}", self.input)),
            ("tail".into(), format!("{:?}", self.tail)),
        ];
        match &self.creds {
            None => v.push(("creds.variant".into(), "none".into())),
            Some(c) => {
                v.push(("creds.variant".into(), "some".into()));
                v.push(("creds.user".into(), format!("{:?}", c.user)));
                v.push(("creds.pass".into(), format!("{:?}", c.pass)));
            }
        }
        v
    }
    fn defaulted_paths() -> &'static [&'static str] {
        &[]
    }
    fn from_matches(m: &ArgMatches) -> Result<Self, String> {
        let creds = if present(m, "Creds") { Some(Creds { user: one::<String>(m, "user")?, pass: one::<String>(m, "pass")? }) } else { None };
        Ok(Misc {
            first_name: one::<String>(m, "first_name")?,
            renamed: one::<u32>(m, "custom_id")?,
            color: one::<String>(m, "color")?,
            creds,
            input: one::<String>(m, "input")?.ok_or("input missing")?,
            tail: many::<String>(m, "tail")?.unwrap_or_default(),
        })
    }
}

fn gen_misc(rng: &mut Rng) -> Misc {
    Misc {
        first_name: if rng.coin() { Some(pick_str(rng)) } else { None },
        renamed: if rng.coin() { Some(*rng.pick(&[0u32, 1, 42, u32::MAX])) } else { None },
        color: match rng.below(3) {
            0 => None,
            1 => Some("auto".into()),
            _ => Some((*rng.pick(&["always", "never"])).to_string()),
        },
        creds: if rng.coin() { Some(Creds { user: Some(pick_str(rng)), pass: if rng.coin() { Some(pick_str(rng)) } else { None } }) } else { None },
        input: (*rng.pick(&["in.txt", "file", "a b"])).to_string(),
        tail: (0..rng.usize(3)).map(|_| (*rng.pick(&["t1", "--looks-like-flag", "-x", "t2"])).to_string()).collect(),
    }
}

fn misc_tokens(v: &Misc, which: &dyn Fn(&str) -> bool) -> (Vec<String>, Vec<(String, String)>) {
    let mut a = Vec::new();
    let mut named = Vec::new();
    if which("input") {
        a.push(v.input.clone());
        named.push(("input".to_string(), format!("{:?}", v.input)));
    }
    if which("first_name") {
        if let Some(x) = &v.first_name {
            a.push(format!("--FIRST_NAME={x}"));
            named.push(("first_name".to_string(), format!("{:?}", v.first_name)));
        }
    }
    if which("renamed") {
        if let Some(x) = v.renamed {
            if x % 2 == 0 {
                a.push(format!("-x{x}"));
            } else {
                a.push(format!("--explicit-name={x}"));
            }
            named.push(("renamed".to_string(), format!("{:?}", v.renamed)));
        }
    }
    if which("color") {
        if let Some(c) = &v.color {
            if c == "auto" {
                a.push("--COLOR".into());
            } else {
                a.push(format!("--COLOR={c}"));
            }
            named.push(("color".to_string(), format!("{:?}", v.color)));
        }
    }
    if which("creds") {
        if let Some(c) = &v.creds {
            a.push(format!("--user={}", c.user.clone().unwrap_or_default()));
            named.push(("creds.variant".to_string(), "some".into()));
            named.push(("creds.user".to_string(), format!("{:?}", c.user)));
            if let Some(p) = &c.pass {
                a.push(format!("--pass={p}"));
                named.push(("creds.pass".to_string(), format!("{:?}", c.pass)));
            }
        }
    }
    if which("tail") && !v.tail.is_empty() {
        a.push("--".into());
        a.extend(v.tail.iter().cloned());
        named.push(("tail".to_string(), format!("{:?}", v.tail)));
    }
    (a, named)
}

fn leaf_fields(prefix: &str, l: &Leaf, v: &mut Vec<(String, String)>) {
    match l {
        Leaf::Alpha => v.push((format!("{prefix}.variant"), "alpha".into())),
        Leaf::Beta { k } => {
            v.push((format!("{prefix}.variant"), "beta".into()));
            v.push((format!("{prefix}.beta.k"), format!("{k:?}")));
        }
    }
}

fn leaf_from(m: &ArgMatches) -> Result<Option<Leaf>, String> {
    Ok(match m.subcommand() {
        None => None,
        Some(("alpha", _)) => Some(Leaf::Alpha),
        Some(("beta", sm)) => Some(Leaf::Beta { k: one::<u8>(sm, "k")? }),
        Some((o, _)) => return Err(format!("unknown leaf {o}")),
    })
}

impl Mirror for Nest {
    fn fields(&self) -> Vec<(String, String)> {
        let mut v = vec![("tag".into(), format!("{:?}", self.tag))];
        match &self.cmd {
            None => v.push(("cmd.variant".into(), "none".into())),
            Some(Mid::Go { n, deep }) => {
                v.push(("cmd.variant".into(), "go".into()));
                v.push(("cmd.go.n".into(), format!("{n:?}")));
                match deep {
                    None => v.push(("cmd.go.deep.variant".into(), "none".into())),
                    Some(l) => leaf_fields("cmd.go.deep", l, &mut v),
                }
            }
            Some(Mid::Svc(l)) => {
                v.push(("cmd.variant".into(), "svc".into()));
                leaf_fields("cmd.svc", l, &mut v);
            }
            Some(Mid::Halt) => v.push(("cmd.variant".into(), "halt".into())),
        }
        v
    }
    fn defaulted_paths() -> &'static [&'static str] {
        &[]
    }
    fn from_matches(m: &ArgMatches) -> Result<Self, String> {
        let cmd = match m.subcommand() {
            None => None,
            Some(("go", sm)) => Some(Mid::Go { n: one::<u8>(sm, "n")?, deep: leaf_from(sm)? }),
            Some(("svc", sm)) => Some(Mid::Svc(leaf_from(sm)?.ok_or("svc without leaf")?)),
            Some(("halt", _)) => Some(Mid::Halt),
            Some((o, _)) => return Err(format!("unknown subcommand {o}")),
        };
        Ok(Nest { tag: one::<String>(m, "tag")?, cmd })
    }
}

fn gen_leaf(rng: &mut Rng) -> Leaf {
    if rng.coin() {
        Leaf::Alpha
    } else {
        Leaf::Beta { k: if rng.coin() { Some(rng.below(256) as u8) } else { None } }
    }
}

fn gen_nest(rng: &mut Rng) -> Nest {
    Nest {
        tag: if rng.coin() { Some(pick_str(rng)) } else { None },
        cmd: match rng.below(5) {
            0 => None,
            1 | 2 => Some(Mid::Go { n: if rng.coin() { Some(rng.below(256) as u8) } else { None }, deep: if rng.coin() { Some(gen_leaf(rng)) } else { None } }),
            3 => Some(Mid::Svc(gen_leaf(rng))),
            _ => Some(Mid::Halt),
        },
    }
}

fn leaf_tokens(prefix: &str, l: &Leaf, a: &mut Vec<String>, named: &mut Vec<(String, String)>) {
    match l {
        Leaf::Alpha => {
            a.push("alpha".into());
            named.push((format!("{prefix}.variant"), "alpha".into()));
        }
        Leaf::Beta { k } => {
            a.push("beta".into());
            named.push((format!("{prefix}.variant"), "beta".into()));
            if let Some(x) = k {
                a.push(format!("--k={x}"));
                named.push((format!("{prefix}.beta.k"), format!("{k:?}")));
            }
        }
    }
}

/// `with_deep`: whether the nested optional subcommand of `go` is named (leaving it out while the aged
/// value has none makes the in-place update fail in the extraction phase)
fn nest_tokens(v: &Nest, top: bool, sub: bool, with_deep: bool) -> (Vec<String>, Vec<(String, String)>) {
    let mut a = Vec::new();
    let mut named = Vec::new();
    if top {
        if let Some(t) = &v.tag {
            a.push(format!("--tag={t}"));
            named.push(("tag".to_string(), format!("{:?}", v.tag)));
        }
    }
    if sub {
        match &v.cmd {
            None => {}
            Some(Mid::Go { n, deep }) => {
                a.push("go".into());
                named.push(("cmd.variant".to_string(), "go".into()));
                if let Some(x) = n {
                    a.push(format!("--n={x}"));
                    named.push(("cmd.go.n".to_string(), format!("{n:?}")));
                }
                if with_deep {
                    if let Some(l) = deep {
                        leaf_tokens("cmd.go.deep", l, &mut a, &mut named);
                    }
                }
            }
            Some(Mid::Svc(l)) => {
                a.push("svc".into());
                named.push(("cmd.variant".to_string(), "svc".into()));
                leaf_tokens("cmd.svc", l, &mut a, &mut named);
            }
            Some(Mid::Halt) => {
                a.push("halt".into());
                named.push(("cmd.variant".to_string(), "halt".into()));
            }
        }
    }
    (a, named)
}

// ------------------------------------------------------------------------------------------

fn with0(name: &str, mut v: Vec<String>) -> Vec<String> {
    v.insert(0, name.to_string());
    v
}

fn gen_ops<T: Mirror>(rng: &mut Rng, ty: u8) -> (Vec<String>, Vec<DOp>) {
    let _ = std::marker::PhantomData::<T>;
    let all = |_: &str| true;
    // initial value and operations, per type
    let (init, mk_update, mk_full): (Vec<String>, Box<dyn Fn(&mut Rng) -> (Vec<String>, Vec<(String, String)>)>, Box<dyn Fn(&mut Rng) -> (Vec<String>, String)>) = match ty {
        0 => {
            let v = gen_flat(rng);
            (
                flat_tokens(&v, &all).0,
                Box::new(|rng: &mut Rng| {
                    let v = gen_flat(rng);
                    let mask = rng.next_u64();
                    let names = ["flag", "verbose", "req", "opt", "optopt", "many", "optmany", "num", "list", "mode", "dmode", "pos", "cap", "lmin", "firstof"];
                    flat_tokens(&v, &move |n: &str| names.iter().position(|x| *x == n).map(|i| mask >> i & 1 == 1).unwrap_or(false))
                }),
                Box::new(|rng: &mut Rng| {
                    let v = gen_flat(rng);
                    (flat_tokens(&v, &|_| true).0, format!("{v:?}"))
                }),
            )
        }
        1 => {
            let v = gen_tree_val(rng);
            (
                tree_tokens(&v, true, true).0,
                Box::new(|rng: &mut Rng| {
                    let v = gen_tree_val(rng);
                    let top = rng.coin();
                    let sub = rng.chance(2, 3) && !matches!(v.cmd, Cmd::Ext(_));
                    let (mut a, mut n) = tree_tokens(&v, top, sub);
                    // a partial update of a struct-like / tuple variant: only its optional fields are named (it
                    // succeeds exactly when the value already holds that variant)
                    if sub && rng.chance(1, 3) {
                        a.retain(|t| !t.starts_with("--name=") && !t.starts_with("--target="));
                        n.retain(|(p, _)| p != "cmd.add.name" && p != "cmd.remove.target");
                    }
                    // an update that stops at the intermediate command `service`: nothing below it is named
                    if sub && matches!(v.cmd, Cmd::Service(_)) && rng.chance(1, 3) {
                        if let Some(i) = a.iter().position(|t| t == "service") {
                            a.truncate(i + 1);
                            n.retain(|(p, _)| !p.starts_with("cmd."));
                            n.push(("cmd.stops-at".to_string(), "service".to_string()));
                        }
                    }
                    (a, n)
                }),
                Box::new(|rng: &mut Rng| {
                    let v = gen_tree_val(rng);
                    (tree_tokens(&v, true, true).0, format!("{v:?}"))
                }),
            )
        }
        4 => {
            let v = gen_nest(rng);
            (
                nest_tokens(&v, true, true, true).0,
                Box::new(|rng: &mut Rng| {
                    let v = gen_nest(rng);
                    let top = rng.coin();
                    let sub = rng.chance(2, 3);
                    let with_deep = rng.chance(2, 3);
                    nest_tokens(&v, top, sub, with_deep)
                }),
                Box::new(|rng: &mut Rng| {
                    let v = gen_nest(rng);
                    (nest_tokens(&v, true, true, true).0, format!("{v:?}"))
                }),
            )
        }
        3 => {
            let v = gen_misc(rng);
            (
                misc_tokens(&v, &all).0,
                Box::new(|rng: &mut Rng| {
                    let v = gen_misc(rng);
                    let mask = rng.next_u64();
                    let names = ["input", "first_name", "renamed", "color", "creds", "tail"];
                    misc_tokens(&v, &move |n: &str| names.iter().position(|x| *x == n).map(|i| mask >> i & 1 == 1).unwrap_or(false))
                }),
                Box::new(|rng: &mut Rng| {
                    let v = gen_misc(rng);
                    (misc_tokens(&v, &|_| true).0, format!("{v:?}"))
                }),
            )
        }
        _ => {
            let v = gen_optsub(rng);
            (
                optsub_tokens(&v, &all).0,
                Box::new(|rng: &mut Rng| {
                    let v = gen_optsub(rng);
                    let mask = rng.next_u64();
                    let names = ["quiet", "groups", "ogroups", "cmd", "rest"];
                    optsub_tokens(&v, &move |n: &str| names.iter().position(|x| *x == n).map(|i| mask >> i & 1 == 1).unwrap_or(false))
                }),
                Box::new(|rng: &mut Rng| {
                    let mut v = gen_optsub(rng);
                    // the canonical printer cannot express `rest` together with a subcommand, nor a subcommand after an open multi-value option
                    let (argv, named) = optsub_tokens(&v, &|_| true);
                    if !named.iter().any(|(n, _)| n == "rest") {
                        v.rest.clear();
                    }
                    if !named.iter().any(|(n, _)| n == "cmd.variant") {
                        v.cmd = None;
                    }
                    (argv, format!("{v:?}"))
                }),
            )
        }
    };
    let n_ops = rng.urange(1, 8);
    let mut ops = Vec::new();
    for _ in 0..n_ops {
        ops.push(match rng.weighted(&[10, 3, 3, 1, 3]) {
            0 => {
                let (argv, named) = mk_update(rng);
                DOp::Update { argv, named, injected_fault: false, via_matches: rng.chance(1, 3) }
            }
            1 => {
                let (argv, _) = mk_update(rng);
                DOp::Parse { argv }
            }
            2 => {
                let (argv, expected) = mk_full(rng);
                DOp::RoundTrip { argv, expected }
            }
            3 => DOp::EnumProbe,
            _ => {
                // failing update: parse-phase faults (unknown flag, bad value) and extraction-phase faults
                let (mut argv, _) = mk_update(rng);
                match rng.below(4) {
                    0 => argv.push("--no-such-flag".into()),
                    1 => argv.push("--num=not-a-number".into()),
                    2 => argv.push("--level=999".into()),
                    _ => argv.insert(0, "--mode=bogus".into()),
                }
                DOp::Update { argv, named: vec![], injected_fault: true, via_matches: rng.chance(1, 3) }
            }
        });
    }
    (init, ops)
}

impl Engine for DeriveSim {
    type Sc = DeriveSc;
    fn prop(&self) -> &'static str {
        "C15"
    }
    fn meta(&self) -> Meta {
        Meta {
            engine: "derivesim",
            level: "exploration",
            rule: "a scenario is one of five derived corpus types (Nest: optional subcommand enum whose variants hold a further optional subcommand, a nested subcommand container variant and a unit variant; Misc: rename_all, explicit id/short/long, default_missing_value, Option<flatten>, required positional, `last` positional Vec; Flat: bool, counter, T, Option<T>, Option<Option<T>>, Vec<T>, Option<Vec<T>>, default_value_t, value_delimiter, ValueEnum with rename/aliases/skip, positional, skip; Tree: global, flatten, required subcommand enum with struct/tuple/unit/nested/external variants, alias; OptSub: multi-value Vec<T> (num_args 1..), Option<Vec<T>> with num_args 0.. (Some(empty)), optional subcommand, trailing positional Vec; Vec<Vec<T>> needs the unstable-v5 feature and is not part of the default surface) plus an initial value and a history of 1-8 operations on ONE value: try_update_from naming a seed-chosen subset of fields (incl. subcommand switches and nested fields), failing updates (parse-phase and extraction-phase faults), parse-equivalence checks, round-trips of generated values, value-enum probes. Non-trivial = >= 2 operations with >= 1 comparison; distinct = distinct scenario hash. Added during the build phase: a flattened child enum, escaped external names, a Box-ed flattened group with a required member, a from_global field, a scalar field over a multi-valued argument, partial updates of the held variant, updates through command_for_update + update_from_arg_matches, from_arg_matches / from_arg_matches_mut, a required subcommand field declared before the other fields",
            real_components: &["clap_derive (Parser, Args, Subcommand, ValueEnum) compiled from /repo", "clap_builder::derive (try_parse_from, try_update_from)", "the builder parser behind them"],
            stub_components: &["hand-written mirrors: value generators, canonical printers, field extraction against the builder API"],
            workload_only_clauses: &["parse-equivalence, field extraction per type shape and round-trip have no history in them; they are evaluated inside the update histories because the update oracle needs them"],
            assumptions: &["the corpus is fixed (five types spanning the type-shape x attribute matrix); other derive inputs are not covered", "no assertion is made on the value left behind by a FAILED update (the statement is silent)", "if /repo's derive no longer compiles the corpus the check exits 2 (cannot decide)"],
            abort_is_violation: false,
        }
    }
    fn runs(&self, tier: Tier) -> u64 {
        match tier {
            Tier::Quick => 600_000,
            Tier::Thorough => 24_000_000,
        }
    }
    fn heartbeat(&self) -> u64 {
        512
    }
    fn gen(&self, rng: &mut Rng, _tier: Tier) -> DeriveSc {
        let ty = rng.below(5) as u8;
        let (init_argv, ops) = match ty {
            0 => gen_ops::<Flat>(rng, 0),
            1 => gen_ops::<Tree>(rng, 1),
            3 => gen_ops::<Misc>(rng, 3),
            4 => gen_ops::<Nest>(rng, 4),
            _ => gen_ops::<OptSub>(rng, 2),
        };
        DeriveSc { ty, init_argv, ops }
    }
    fn exec(&self, sc: &DeriveSc, log: &mut Log) -> Outcome {
        let mut out = Outcome::default();
        let r = catch(|| match sc.ty % 5 {
            0 => exec_ty::<Flat>("flat", sc, log, &mut out),
            1 => exec_ty::<Tree>("tree", sc, log, &mut out),
            3 => exec_ty::<Misc>("misc", sc, log, &mut out),
            4 => exec_ty::<Nest>("nest", sc, log, &mut out),
            _ => exec_ty::<OptSub>("optsub", sc, log, &mut out),
        });
        if let Err(p) = r {
            if panic_in_harness(&p) {
                out.violate("HARNESS-PANIC", short_file(&p), format!("{} at {}", p.msg, p.loc));
            } else {
                out.violate("panic", short_file(&p), format!("{} at {}", p.msg, p.loc));
            }
        }
        out
    }
    fn shrink(&self, sc: &DeriveSc) -> Vec<DeriveSc> {
        let mut c = Vec::new();
        for i in 0..sc.ops.len() {
            if sc.ops.len() > 1 {
                let mut s = sc.clone();
                s.ops.remove(i);
                c.push(s);
            }
        }
        for i in 0..sc.init_argv.len() {
            let mut s = sc.clone();
            s.init_argv.remove(i);
            c.push(s);
        }
        c
    }
    fn fixed(&self) -> Vec<(String, DeriveSc)> {
        vec![]
    }
}

fn exec_ty<T: Mirror>(name: &str, sc: &DeriveSc, log: &mut Log, out: &mut Outcome) {
    let mut shape = ShapeHasher::new();
    shape.add(sc.ty as u64);
    out.nontrivial = sc.ops.len() >= 2;
    let init = with0(name, sc.init_argv.clone());
    let mut aged: T = match T::try_parse_from(init.iter()) {
        Ok(v) => v,
        Err(e) => {
            // shrunk init argvs may be invalid; that is not a finding
            ev!(log, "init {:?} rejected: {:?}", sc.init_argv, e.kind());
            out.count("misc.init_rejected");
            return;
        }
    };
    ev!(log, "init {:?} -> {:?}", sc.init_argv, aged);
    for (i, op) in sc.ops.iter().enumerate() {
        out.steps += 1;
        match op {
            DOp::Update { argv, named, injected_fault, via_matches } => {
                shape.add(if *via_matches { 11 } else { 1 });
                let before = aged.fields();
                let full = with0(name, argv.clone());
                let snapshot = aged.clone();
                let r = if *via_matches {
                    out.count("op.update_via_matches");
                    match T::command_for_update().try_get_matches_from(full.iter()) {
                        Ok(m) => aged.update_from_arg_matches(&m),
                        Err(e) => Err(e),
                    }
                } else {
                    aged.try_update_from(full.iter())
                };
                match r {
                    Err(e) => {
                        // a failing update must not panic (it did not); nothing is asserted on the value
                        out.count(if named.is_empty() { "fault.failing_update_injected" } else { "fault.failing_update" });
                        out.count_dyn(format!("op.update_err_{:?}", e.kind()));
                        ev!(log, "{i} update {:?} -> Err({:?})", argv, e.kind());
                        let _ = snapshot;
                        if !*injected_fault {
                            // an update that stops at an intermediate command whose variant the value already holds
                            // names nothing below it: it is a no-op, not a missing subcommand
                            if let Some((_, parent)) = named.iter().find(|(n, _)| n == "cmd.stops-at") {
                                let holds = before.iter().any(|(n, x)| n == "cmd.variant" && x.starts_with(&format!("{parent}.")));
                                if holds && matches!(e.kind(), clap::error::ErrorKind::MissingSubcommand | clap::error::ErrorKind::DisplayHelpOnMissingArgumentOrSubcommand | clap::error::ErrorKind::MissingRequiredArgument) {
                                    out.violate("partial-update-rejected", "intermediate-command".to_string(), format!("op {i}: update {:?} stops at `{parent}`, whose variant the value already holds, but fails with {:?}", argv, e.kind()));
                                    return;
                                }
                            }
                        }
                        if !*injected_fault && e.kind() == clap::error::ErrorKind::MissingRequiredArgument {
                            // the update command relaxes every `required`: unless the update switches to another
                            // variant (which is then built from scratch), a missing required argument cannot be
                            // the reason to reject it
                            let switches = named.iter().any(|(n, x)| n.ends_with("variant") && !before.iter().any(|(q, old)| q == n && old == x));
                            if !switches {
                                out.violate("partial-update-rejected", "no-variant-switch".to_string(), format!("op {i}: update {:?} (naming {:?}) does not switch to another variant but fails with MissingRequiredArgument: {}", argv, named.iter().map(|x| &x.0).collect::<Vec<_>>(), e.to_string().lines().take(3).collect::<Vec<_>>().join(" / ")));
                                return;
                            }
                        }
                        if !*injected_fault {
                            // an update that names only optional fields of the variant the value already holds
                            // must not be rejected for the variant's required fields
                            for (variant, req) in T::required_of_variant() {
                                let names_variant = named.iter().any(|(n, x)| n == "cmd.variant" && x == variant);
                                let holds_variant = before.iter().any(|(n, x)| n == "cmd.variant" && x == variant);
                                if names_variant && holds_variant && !named.iter().any(|(n, _)| n == req) && e.kind() == clap::error::ErrorKind::MissingRequiredArgument {
                                    out.violate("partial-update-rejected", variant.to_string(), format!("op {i}: update {:?} names only optional fields of the `{variant}` variant the value already holds, but fails with {:?}", argv, e.kind()));
                                    return;
                                }
                            }
                        }
                        if !*injected_fault {
                            // a FAILED update may have applied some of the named assignments, but no field may end up
                            // with a value that is neither its old one nor the one the tokens name
                            let after = aged.fields();
                            out.comparisons += 1;
                            for (p, b) in &before {
                                let now = after.iter().find(|(q, _)| q == p).map(|(_, a)| a.clone());
                                let named_new = named.iter().find(|(n, _)| n == p).map(|(_, x)| x.clone());
                                let parent_switched = named.iter().any(|(n, x)| n.ends_with(".variant") && p.starts_with(n.trim_end_matches("variant")) && before.iter().any(|(q, old)| q == n && old != x));
                                let ok = match &now {
                                    Some(a) => a == b || Some(a.clone()) == named_new,
                                    None => parent_switched || named.iter().any(|(n, _)| n.ends_with(".variant") && p.starts_with(n.trim_end_matches("variant"))),
                                };
                                if !ok {
                                    let site = if T::defaulted_paths().contains(&p.as_str()) { "field-with-default" } else { "failed-update-corrupts-field" };
                                    out.violate("untouched-field-changed", site, format!("op {i}: FAILED update {:?} ({:?}): field {p} went from {b} to {:?}, which is neither its old value nor the value the tokens name", argv, e.kind(), now));
                                    if site != "field-with-default" {
                                        return;
                                    }
                                }
                            }
                        }
                    }
                    Ok(()) if *injected_fault => {
                        out.count("misc.injected_fault_did_not_fail");
                        ev!(log, "{i} update {:?} (fault injected) -> Ok", argv);
                    }
                    Ok(()) => {
                        out.count("op.update_ok");
                        ev!(log, "{i} update {:?} -> {:?}", argv, aged);
                        let after = aged.fields();
                        out.comparisons += 1;
                        let is_named = |path: &str| named.iter().any(|(n, _)| n == path || path.starts_with(&format!("{n}.")) || n.starts_with(&format!("{path}.")));
                        // named fields hold exactly the tokens' values
                        for (n, expected) in named {
                            if let Some((_, got)) = after.iter().find(|(p, _)| p == n) {
                                if got != expected {
                                    out.violate("named-field-wrong", n.clone(), format!("op {i}: update {:?}: field {n} = {got}, the tokens say {expected}", argv));
                                    return;
                                }
                            }
                        }
                        // untouched fields are unchanged
                        for (p, b) in &before {
                            if is_named(p) {
                                continue;
                            }
                            let Some((_, a)) = after.iter().find(|(q, _)| q == p) else { continue };
                            if a != b {
                                let site = if T::defaulted_paths().contains(&p.as_str()) {
                                    "field-with-default"
                                } else if p == "creds.variant" && b == "none" && a == "some" {
                                    // listed finding: the updater of an `Option<flatten>` field that is None builds
                                    // Some(from_arg_matches) without looking whether any argument of the group was given
                                    "optional-flatten-none-becomes-some"
                                } else {
                                    "field-without-default"
                                };
                                out.violate("untouched-field-changed", site, format!("op {i}: update {:?} names {:?} but field {p} changed from {b} to {a}", argv, named.iter().map(|x| &x.0).collect::<Vec<_>>()));
                                if site == "field-without-default" {
                                    return;
                                }
                            }
                        }
                    }
                }
            }
            DOp::Parse { argv } => {
                shape.add(2);
                let full = with0(name, argv.clone());
                let r1 = T::try_parse_from(full.iter());
                let r2 = T::command().try_get_matches_from(full.iter());
                out.comparisons += 1;
                out.count("op.parse_equivalence");
                ev!(log, "{i} parse {:?} -> derive ok={} builder ok={}", argv, r1.is_ok(), r2.is_ok());
                match (r1, r2) {
                    (Ok(v), Ok(m)) => match T::from_matches(&m) {
                        Ok(w) => {
                            if v != w {
                                out.violate("extraction-differs", name.to_string(), format!("op {i}: argv {:?}: derived value {:?} differs from the matches' content {:?}", argv, v, w));
                                return;
                            }
                            // the other extraction entry points agree with try_parse_from
                            out.comparisons += 1;
                            let by_ref = <T as clap::FromArgMatches>::from_arg_matches(&m);
                            let by_mut = <T as clap::FromArgMatches>::from_arg_matches_mut(&mut m.clone());
                            for (how, x) in [("from_arg_matches", by_ref), ("from_arg_matches_mut", by_mut)] {
                                match x {
                                    Ok(x) if x == v => {}
                                    Ok(x) => {
                                        out.violate("extraction-differs", format!("{name}/{how}"), format!("op {i}: argv {:?}: {how} on the command's matches gives {:?}, try_parse_from gives {:?}", argv, x, v));
                                        return;
                                    }
                                    Err(e) => {
                                        out.violate("extraction-differs", format!("{name}/{how}"), format!("op {i}: argv {:?}: {how} on the command's matches fails ({:?}) although try_parse_from succeeds", argv, e.kind()));
                                        return;
                                    }
                                }
                            }
                        }
                        Err(e) => {
                            out.violate("extraction-differs", name.to_string(), format!("op {i}: argv {:?}: derived parse succeeded ({:?}) but hand extraction fails: {e}", argv, v));
                            return;
                        }
                    },
                    (Err(_), Err(_)) => {}
                    (Ok(v), Err(e)) => {
                        out.violate("parse-equivalence", name.to_string(), format!("op {i}: argv {:?}: derive accepts ({:?}) but its own command rejects ({:?})", argv, v, e.kind()));
                        return;
                    }
                    (Err(e), Ok(m)) => {
                        // the command accepts but extraction reports a missing piece: allowed only for the documented
                        // extraction-phase errors (missing required subcommand / argument)
                        if !matches!(e.kind(), clap::error::ErrorKind::MissingSubcommand | clap::error::ErrorKind::MissingRequiredArgument | clap::error::ErrorKind::DisplayHelpOnMissingArgumentOrSubcommand) || T::from_matches(&m).is_ok() {
                            out.violate("parse-equivalence", name.to_string(), format!("op {i}: argv {:?}: the command accepts but derive rejects with {:?}", argv, e.kind()));
                            return;
                        }
                    }
                }
            }
            DOp::RoundTrip { argv, expected } => {
                shape.add(3);
                let full = with0(name, argv.clone());
                out.comparisons += 1;
                out.count("op.round_trip");
                match T::try_parse_from(full.iter()) {
                    Ok(v) => {
                        let got = format!("{v:?}");
                        ev!(log, "{i} roundtrip {:?} -> {got}", argv);
                        if got != *expected {
                            out.violate("round-trip", name.to_string(), format!("op {i}: printing {expected} gives {:?}, parsing that gives {got}", argv));
                            return;
                        }
                    }
                    Err(e) => {
                        out.violate("round-trip", name.to_string(), format!("op {i}: printing {expected} gives {:?}, which is rejected: {:?}", argv, e.kind()));
                        return;
                    }
                }
            }
            DOp::EnumProbe => {
                shape.add(4);
                out.comparisons += 1;
                out.count("op.value_enum_probe");
                for v in Mode::value_variants() {
                    let Some(pv) = v.to_possible_value() else { continue };
                    for n in pv.get_name_and_aliases() {
                        match Mode::from_str(n, false) {
                            Ok(back) if back == *v => {}
                            other => {
                                out.violate("value-enum-mapping", "name-or-alias", format!("name/alias {n:?} of {:?} maps to {:?}", v, other));
                                return;
                            }
                        }
                        // case-insensitive lookups must agree as well
                        if Mode::from_str(&n.to_uppercase(), true).ok() != Some(*v) {
                            out.violate("value-enum-mapping", "ignore-case", format!("{:?} upper-cased with ignore_case does not map to {:?}", n, v));
                            return;
                        }
                    }
                    if Mode::from_str(pv.get_name(), false).ok().and_then(|b| b.to_possible_value()).map(|p| p.get_name().to_string()) != Some(pv.get_name().to_string()) {
                        out.violate("value-enum-mapping", "round-trip", format!("to_possible_value/from_str do not round-trip for {:?}", v));
                        return;
                    }
                }
                // the spellings as the corpus source declares them (not as to_possible_value() reports them)
                const DECLARED: &[(&str, Mode)] = &[("fast", Mode::Fast), ("quick", Mode::Fast), ("rapid", Mode::Fast), ("speedy", Mode::Fast), ("slow-mode", Mode::Slow), ("s", Mode::Slow), ("slowly", Mode::Slow), ("two-words", Mode::TwoWords), ("secret", Mode::Secret), ("hush", Mode::Secret)];
                for (n, v) in DECLARED {
                    if Mode::from_str(n, false).ok() != Some(*v) {
                        out.violate("value-enum-mapping", "declared-spelling", format!("the declared name/alias {n:?} of {:?} maps to {:?}", v, Mode::from_str(n, false)));
                        return;
                    }
                }
                if Mode::value_variants().iter().any(|v| matches!(v, Mode::Internal)) || Mode::from_str("internal", true).is_ok() {
                    out.violate("value-enum-mapping", "skip", "a #[value(skip)] variant is reachable".to_string());
                    return;
                }
                ev!(log, "{i} enum probe ok");
            }
        }
    }
    out.shape = shape.get();
}
