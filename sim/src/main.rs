//! sim — deterministic simulation harness for clap-rs/clap (see /verif/DESIGN.md).
//!
//! sim run <PROP> [--tier quick|thorough] [--seed N] [--workers N] [--runs N]
//! sim replay <PROP> <file>
//! sim selftest <PROP> [--seed N] [--runs N]
//! sim gen <PROP> <idx> [--seed N]          print the scenario of run idx
//! (internal) sim worker|exec-stdin|shrink-stdin ...

mod bytes;
mod c04;
mod c06;
mod c12;
mod cmdsim;
mod compsim;
mod core;
#[cfg(feature = "derive_corpus")]
mod derivesim;
mod driver;
mod faulty_writer;
mod gen;
mod lexsim;
mod procsim;
mod rng;
mod sinksim;
mod spec;

use crate::core::Tier;
use driver::{Dyn, DynEngine};

fn engine_for(prop: &str) -> Option<Box<dyn DynEngine>> {
    Some(match prop {
        "C04" => Box::new(Dyn(c04::AccessSim)),
        "C06" => Box::new(Dyn(c06::EnvSim)),
        "C10" => Box::new(Dyn(procsim::ProcSim)),
        "C11" => Box::new(Dyn(cmdsim::CmdSim)),
        "C12" => Box::new(Dyn(c12::HelpSim)),
        #[cfg(feature = "derive_corpus")]
        "C15" => Box::new(Dyn(derivesim::DeriveSim)),
        "C16" => Box::new(Dyn(sinksim::SinkSim(sinksim::Which::C16))),
        "C18" => Box::new(Dyn(compsim::CompSim)),
        "C19" => Box::new(Dyn(sinksim::SinkSim(sinksim::Which::C19))),
        "C13" => Box::new(Dyn(lexsim::LexSim(lexsim::Mode::C13))),
        "C14" => Box::new(Dyn(lexsim::LexSim(lexsim::Mode::C14))),
        _ => return None,
    })
}

pub const ALL_PROPS: &[&str] = &["C04", "C06", "C10", "C11", "C12", "C13", "C14", "C15", "C16", "C18", "C19"];

fn arg_val(args: &[String], name: &str) -> Option<String> {
    args.iter().position(|a| a == name).and_then(|i| args.get(i + 1).cloned())
}

fn seed_from(args: &[String]) -> u64 {
    if let Some(s) = arg_val(args, "--seed") {
        return s.parse().unwrap_or(1);
    }
    match std::env::var("VERIF_SEED") {
        Ok(s) => s.trim().parse::<i128>().map(|x| x as u64).unwrap_or(1),
        Err(_) => 1,
    }
}

fn main() {
    core::install_panic_hook();
    let args: Vec<String> = std::env::args().skip(1).collect();
    if args.len() < 2 {
        eprintln!("usage: sim <run|replay|selftest|gen> <PROP> ...");
        std::process::exit(2);
    }
    let cmd = args[0].as_str();
    if cmd == "child-cli" {
        procsim::child_main();
    }
    if cmd == "list" {
        println!("{}", ALL_PROPS.join(" "));
        return;
    }
    let prop = args[1].as_str();
    let Some(e) = engine_for(prop) else {
        eprintln!("HARNESS-ERROR unknown or unclaimed property {prop}");
        std::process::exit(2);
    };
    let tier = arg_val(&args, "--tier")
        .or_else(|| std::env::var("VERIF_TIER").ok())
        .and_then(|t| Tier::parse(&t))
        .unwrap_or(Tier::Quick);
    let code = match cmd {
        "run" => {
            let workers = arg_val(&args, "--workers").and_then(|s| s.parse().ok()).unwrap_or(16);
            let runs_override = arg_val(&args, "--runs").and_then(|s| s.parse().ok()).or_else(|| std::env::var("VERIF_RUNS").ok().and_then(|s| s.parse().ok()));
            driver::run_property(
                e.as_ref(),
                driver::RunOpts {
                    selftest_runs: if tier == Tier::Thorough { 1000 } else { 0 },
                    tier,
                    seed: seed_from(&args),
                    workers,
                    runs_override,
                },
            )
        }
        "replay" => match args.get(2) {
            Some(p) => driver::replay(e.as_ref(), p),
            None => 2,
        },
        "selftest" => {
            let n = arg_val(&args, "--runs").and_then(|s| s.parse().ok()).unwrap_or(2000);
            driver::selftest(e.as_ref(), seed_from(&args), n)
        }
        "gen" => {
            let idx: u64 = args.get(2).and_then(|s| s.parse().ok()).unwrap_or(0);
            println!("{}", e.gen_json(seed_from(&args), idx, tier));
            0
        }
        "worker" => {
            let g = |n: &str| arg_val(&args, n).and_then(|s| s.parse::<u64>().ok());
            driver::worker(
                e.as_ref(),
                driver::WorkerOpts {
                    seed: g("--seed").unwrap_or(1),
                    tier,
                    from: g("--from").unwrap_or(0),
                    to: g("--to").unwrap_or(0),
                    hashes: args.iter().any(|a| a == "--hashes"),
                    hb: g("--hb").unwrap_or(64),
                    fixed: args.iter().any(|a| a == "--fixed"),
                },
            )
        }
        "exec-stdin" => driver::exec_stdin(e.as_ref()),
        "shrink-stdin" => {
            let clause = args.get(2).cloned().unwrap_or_default();
            let site = args.get(3).cloned().unwrap_or_default();
            let budget = args.get(4).and_then(|s| s.parse().ok()).unwrap_or(1000);
            driver::shrink_stdin(e.as_ref(), &clause, &site, budget)
        }
        _ => {
            eprintln!("unknown command {cmd}");
            2
        }
    };
    compsim::cleanup_scratch();
    std::process::exit(code);
}
