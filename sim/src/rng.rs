//! The only randomness in the simulator: splitmix64 seeding -> xoshiro256**.
//! Every choice of a run is drawn from one stream derived from (VERIF_SEED, engine, run index).

#[derive(Clone, Debug)]
pub struct Rng {
    s: [u64; 4],
}

pub fn splitmix64(x: &mut u64) -> u64 {
    *x = x.wrapping_add(0x9E37_79B9_7F4A_7C15);
    let mut z = *x;
    z = (z ^ (z >> 30)).wrapping_mul(0xBF58_476D_1CE4_E5B9);
    z = (z ^ (z >> 27)).wrapping_mul(0x94D0_49BB_1331_11EB);
    z ^ (z >> 31)
}

/// Stable 64-bit FNV-1a over bytes (used for engine ids and event-log hashes).
pub fn fnv1a(bytes: &[u8]) -> u64 {
    let mut h: u64 = 0xcbf2_9ce4_8422_2325;
    for b in bytes {
        h ^= *b as u64;
        h = h.wrapping_mul(0x0000_0100_0000_01B3);
    }
    h
}

impl Rng {
    pub fn new(seed: u64) -> Self {
        let mut x = seed;
        let s = [
            splitmix64(&mut x),
            splitmix64(&mut x),
            splitmix64(&mut x),
            splitmix64(&mut x),
        ];
        Rng { s }
    }

    /// The stream of run `idx` of engine/property `tag` under the batch seed.
    pub fn for_run(seed: u64, tag: &str, idx: u64) -> Self {
        let mut x = seed ^ fnv1a(tag.as_bytes()).rotate_left(17);
        let a = splitmix64(&mut x);
        let mut y = a ^ idx.wrapping_mul(0xD6E8_FEB8_6659_FD93);
        let b = splitmix64(&mut y);
        Rng::new(b)
    }

    pub fn next_u64(&mut self) -> u64 {
        let result = self.s[1].wrapping_mul(5).rotate_left(7).wrapping_mul(9);
        let t = self.s[1] << 17;
        self.s[2] ^= self.s[0];
        self.s[3] ^= self.s[1];
        self.s[1] ^= self.s[2];
        self.s[0] ^= self.s[3];
        self.s[2] ^= t;
        self.s[3] = self.s[3].rotate_left(45);
        result
    }

    /// Uniform in 0..n (n > 0).
    pub fn below(&mut self, n: u64) -> u64 {
        debug_assert!(n > 0);
        // multiply-shift; bias is irrelevant for workload generation
        ((self.next_u64() as u128 * n as u128) >> 64) as u64
    }

    pub fn usize(&mut self, n: usize) -> usize {
        self.below(n as u64) as usize
    }

    /// Inclusive range.
    pub fn range(&mut self, lo: i64, hi: i64) -> i64 {
        debug_assert!(lo <= hi);
        let span = (hi as i128 - lo as i128 + 1) as u64;
        if span == 0 {
            return self.next_u64() as i64;
        }
        (lo as i128 + self.below(span) as i128) as i64
    }

    pub fn urange(&mut self, lo: usize, hi: usize) -> usize {
        lo + self.usize(hi - lo + 1)
    }

    /// True with probability num/den.
    pub fn chance(&mut self, num: u64, den: u64) -> bool {
        self.below(den) < num
    }

    pub fn coin(&mut self) -> bool {
        self.next_u64() & 1 == 1
    }

    pub fn pick<'a, T>(&mut self, xs: &'a [T]) -> &'a T {
        &xs[self.usize(xs.len())]
    }

    pub fn pick_opt<'a, T>(&mut self, xs: &'a [T]) -> Option<&'a T> {
        if xs.is_empty() {
            None
        } else {
            Some(&xs[self.usize(xs.len())])
        }
    }

    pub fn shuffle<T>(&mut self, xs: &mut [T]) {
        for i in (1..xs.len()).rev() {
            let j = self.usize(i + 1);
            xs.swap(i, j);
        }
    }

    /// Pick an index by integer weights.
    pub fn weighted(&mut self, w: &[u32]) -> usize {
        let total: u64 = w.iter().map(|x| *x as u64).sum();
        debug_assert!(total > 0);
        let mut r = self.below(total);
        for (i, x) in w.iter().enumerate() {
            if r < *x as u64 {
                return i;
            }
            r -= *x as u64;
        }
        w.len() - 1
    }
}
