//! cmdsim — histories on one long-lived `clap::Command` (C11), with a fresh instance built
//! from the declarative spec as the reference for every comparison.

use crate::bytes::B;
use crate::core::*;
use crate::ev;
use crate::gen::{gen_argv, gen_tree, GenCfg};
use crate::rng::Rng;
use crate::spec::*;
use clap::error::ErrorKind;
use clap::{ArgMatches, Command};
use serde::{Deserialize, Serialize};
use std::ffi::OsString;

#[derive(Clone, Debug, Hash, Serialize, Deserialize, PartialEq)]
pub enum Op {
    /// `try_get_matches_from_mut` on the aged command
    Parse(Vec<B>),
    /// `aged.clone().try_get_matches_from(..)`
    ParseClone(Vec<B>),
    Build,
    RenderHelp,
    RenderLongHelp,
    RenderUsage,
    RenderVersion,
    RenderLongVersion,
    WriteHelp,
    WriteLongHelp,
    /// `Command::error(kind, msg)` (builds, renders usage)
    Error(u8),
    /// replace the aged command by its clone
    CloneSwap,
    /// read-only introspection that many callers do between parses
    Introspect,
    /// build(), then render help of the subcommand addressed by the path through `find_subcommand_mut`
    SubRender(Vec<u8>, bool),
    /// ambient event: set (Some) or remove (None) the environment variable of the k-th env-bearing argument
    Env(u8, Option<B>),
}

impl Op {
    pub fn kind(&self) -> &'static str {
        match self {
            Op::Parse(_) => "parse",
            Op::ParseClone(_) => "parse_clone",
            Op::Build => "build",
            Op::RenderHelp => "render_help",
            Op::RenderLongHelp => "render_long_help",
            Op::RenderUsage => "render_usage",
            Op::RenderVersion => "render_version",
            Op::RenderLongVersion => "render_long_version",
            Op::WriteHelp => "write_help",
            Op::WriteLongHelp => "write_long_help",
            Op::Error(_) => "error",
            Op::CloneSwap => "clone_swap",
            Op::Introspect => "introspect",
            Op::SubRender(..) => "sub_render",
            Op::Env(..) => "env",
        }
    }
    fn mutates_definition_view(&self) -> bool {
        // operations after which the statement no longer asserts message identity
        !matches!(self, Op::Parse(_) | Op::ParseClone(_) | Op::CloneSwap)
    }
}

#[derive(Clone, Debug, Hash, Serialize, Deserialize, PartialEq)]
pub struct C11Sc {
    pub spec: CmdSpec,
    pub argv0: String,
    pub ops: Vec<Op>,
}

pub enum POut {
    Ok { m: ArgMatches, dbg: String },
    Err { kind: ErrorKind, use_stderr: bool, exit_code: i32, rendered: String },
    Panic { file: String, msg: String },
}

impl POut {
    pub fn class(&self) -> String {
        match self {
            POut::Ok { .. } => "Ok".into(),
            POut::Err { kind, .. } => format!("Err({kind:?})"),
            POut::Panic { file, .. } => format!("Panic({file})"),
        }
    }
}

pub fn full_argv(spec: &CmdSpec, argv0: &str, argv: &[B]) -> Vec<OsString> {
    let mut v: Vec<OsString> = Vec::with_capacity(argv.len() + 1);
    if !spec.has(CmdSetting::NoBinaryName) {
        v.push(OsString::from(argv0));
    }
    v.extend(argv.iter().map(|b| b.os()));
    v
}

pub fn outcome_of(r: Result<Result<ArgMatches, clap::Error>, PanicInfo>) -> POut {
    match r {
        Ok(Ok(m)) => {
            let dbg = format!("{m:?}");
            POut::Ok { m, dbg }
        }
        Ok(Err(e)) => {
            let rendered = match catch(|| e.render().to_string()) {
                Ok(s) => s,
                Err(p) => format!("<render panicked: {} at {}>", p.msg, short_file(&p)),
            };
            POut::Err {
                kind: e.kind(),
                use_stderr: e.use_stderr(),
                exit_code: e.exit_code(),
                rendered,
            }
        }
        Err(p) => POut::Panic {
            file: short_file(&p),
            msg: format!("{} at {}", p.msg, p.loc),
        },
    }
}

pub fn parse_mut(cmd: &mut Command, argv: &[OsString]) -> POut {
    outcome_of(catch(|| cmd.try_get_matches_from_mut(argv.iter().cloned())))
}

/// Compare two parse outcomes. `with_message` adds rendered-message identity.
pub fn compare(a: &POut, b: &POut, with_message: bool) -> Option<(&'static str, String)> {
    match (a, b) {
        (POut::Ok { m: ma, dbg: da }, POut::Ok { m: mb, dbg: db }) => {
            if ma != mb {
                return Some(("matches", format!("matches differ (PartialEq):\n  left:  {da}\n  right: {db}")));
            }
            if da != db {
                return Some(("matches", format!("matches differ (Debug text):\n  left:  {da}\n  right: {db}")));
            }
            None
        }
        (
            POut::Err { kind: ka, use_stderr: ua, exit_code: ea, rendered: ra },
            POut::Err { kind: kb, use_stderr: ub, exit_code: eb, rendered: rb },
        ) => {
            if ka != kb {
                return Some(("error-kind", format!("error kinds differ: {ka:?} vs {kb:?}\n  left:  {ra}\n  right: {rb}")));
            }
            if ua != ub || ea != eb {
                return Some(("error-kind", format!("stream/exit code differ for {ka:?}: ({ua},{ea}) vs ({ub},{eb})")));
            }
            if with_message && ra != rb {
                return Some(("message", format!("rendered messages differ for {ka:?}:\n--- left\n{ra}\n--- right\n{rb}")));
            }
            None
        }
        (POut::Panic { file: fa, .. }, POut::Panic { file: fb, .. }) => {
            if fa != fb {
                return Some(("outcome-class", format!("both panic but in different files: {fa} vs {fb}")));
            }
            None
        }
        _ => Some(("outcome-class", format!("outcome classes differ: {} vs {}{}", a.class(), b.class(), panic_note(a, b)))),
    }
}

fn panic_note(a: &POut, b: &POut) -> String {
    let mut s = String::new();
    for x in [a, b] {
        if let POut::Panic { msg, .. } = x {
            s.push_str(&format!(" [panic: {msg}]"));
        }
    }
    s
}

/// Narrow structural classes of two defects that are listed in known_findings.json; anything
/// that does not match them exactly keeps the generic comparison site.
fn classify(spec: &CmdSpec, site: &'static str, clause: &str, argv: &[B], a: &POut, b: &POut) -> String {
    if clause == "error-kind" || clause == "outcome-class" {
        // `help .. help <name>`: the expanded help tree (after build()) has children under `help`,
        // the lazily built one has a `[COMMAND]...` positional instead
        if argv.iter().filter(|t| t.0 == b"help").count() >= 2 {
            return "help-help-path".into();
        }
    }
    if clause == "message" && any_setting(spec, CmdSetting::FlattenHelp) {
        if let (POut::Err { rendered: ra, .. }, POut::Err { rendered: rb, .. }) = (a, b) {
            // flattened help/usage shows a nested `help` subcommand either in its lazy form
            // (`help [COMMAND]...` plus a `[COMMAND]...` row) or in its expanded form, depending on
            // whether that level had been built before
            let norm = |s: &str| {
                s.lines()
                    .filter(|l| !(l.contains("[COMMAND]...") && l.contains("Print help for the subcommand(s)")))
                    .map(|l| l.replace("[COMMAND]...", "[COMMAND]"))
                    .collect::<Vec<_>>()
                    .join("\n")
            };
            if norm(ra) == norm(rb) {
                return "flatten-help-nested-help-subcommand".into();
            }
            // no_binary_name: a subcommand that has been dispatched to once keeps a usage name without
            // the root's usage prefix; flattened usage of the parent then prints `sub` instead of `prog sub`
            if spec.has(CmdSetting::NoBinaryName) {
                return "flatten-help-with-no-binary-name".into();
            }
        }
    }
    site.to_string()
}

fn any_setting(s: &CmdSpec, st: CmdSetting) -> bool {
    s.has(st) || s.subs.iter().any(|c| any_setting(c, st))
}

fn any_defer(s: &CmdSpec) -> bool {
    s.defer != 0 || s.subs.iter().any(any_defer)
}

pub struct CmdSim;

const ERROR_KINDS: &[ErrorKind] = &[ErrorKind::InvalidValue, ErrorKind::UnknownArgument, ErrorKind::MissingRequiredArgument, ErrorKind::ArgumentConflict, ErrorKind::DisplayHelp, ErrorKind::ValueValidation, ErrorKind::Io, ErrorKind::Format];

pub fn pick_argv0(rng: &mut Rng, spec: &CmdSpec) -> String {
    if spec.has(CmdSetting::Multicall) {
        // one applet name for the whole history
        if let Some(s) = rng.pick_opt(&spec.subs) {
            if rng.chance(3, 4) {
                let n = rng.pick(&s.all_names()).clone();
                return if rng.chance(1, 4) { format!("/usr/bin/{n}") } else { n };
            }
        }
        return "unknown-applet".into();
    }
    (*rng.pick(&["prog", "prog", "/usr/local/bin/prog", "./target/debug/other-name", "p", "my prog"])).to_string()
}

impl Engine for CmdSim {
    type Sc = C11Sc;
    fn prop(&self) -> &'static str {
        "C11"
    }
    fn meta(&self) -> Meta {
        Meta {
            engine: "cmdsim",
            level: "exploration",
            rule: "a scenario is a declarative command tree (depth <= 3, swarm-selected features, valid by construction and gated by clap's own build() debug assertions) plus a seeded history of 1-12 operations on ONE long-lived Command (parse by reference, parse of a clone, build, render help/long help/usage/version, write_help, Command::error, clone-swap, introspection); parses include generated faults (unknown tokens, missing/excess/bad values, conflicts, help/version aborts at any subcommand depth, value-parser callback rejections, invalid UTF-8). After every parse the aged result is compared with a fresh, a cloned and a pre-built instance of the same spec. Non-trivial = at least one parse preceded by another operation; distinct = distinct scenario hash",
            real_components: &["clap_builder::Command (build, _build_self, _build_subcommand, _build_bin_names, mkeymap)", "clap_builder::parser::Parser", "clap_builder::error (kind, render)", "help/usage rendering between parses"],
            stub_components: &["caller-supplied TypedValueParser that rejects scenario-marked raw values (callback fault seam)", "the reference is clap itself on a fresh value (as the statement says), not a stub"],
            workload_only_clauses: &["which command tree and which argv: ordinary seeded workload; the history of calls on one value is the simulated dimension"],
            assumptions: &["all parses of a history use the same argv[0] (the statement says 'under the same program name'); multicall histories use one applet name", "message identity is asserted for histories of parses, clones, renders, writes and error constructions; after an explicit build() (which expands the help tree) only kind and matches are compared", "a panic on both the aged and the fresh side is equal behaviour (counted as an unclaimed observation; C01 is not claimed)"],
            abort_is_violation: false,
        }
    }
    fn runs(&self, tier: Tier) -> u64 {
        match tier {
            Tier::Quick => 300_000,
            Tier::Thorough => 10_000_000,
        }
    }
    fn heartbeat(&self) -> u64 {
        256
    }

    fn gen(&self, rng: &mut Rng, _tier: Tier) -> C11Sc {
        let mut cfg = GenCfg::parse_heavy();
        // a third of the trees carry environment-backed arguments (the variable may move during the history)
        cfg.allow_env = rng.chance(1, 3);
        // a few attempts to get a spec clap's gate accepts (rejections are counted by exec otherwise)
        let mut spec = gen_tree(rng, &cfg);
        for _ in 0..3 {
            if gate(&spec).is_ok() {
                break;
            }
            spec = gen_tree(rng, &cfg);
        }
        let argv0 = pick_argv0(rng, &spec);
        let n_ops = if rng.chance(1, 5) { rng.urange(1, 3) } else { rng.urange(2, 12) };
        let mut w = [14u32, 3, 3, 2, 2, 2, 1, 1, 1, 1, 2, 2, 1, 2, if cfg.allow_env { 5 } else { 0 }];
        // swarm: some histories are parse-only (message identity asserted), some render-heavy
        match rng.below(4) {
            0 => {
                for x in w[2..].iter_mut() {
                    *x = 0;
                }
                w[11] = 2;
            }
            1 => {
                for x in w[2..11].iter_mut() {
                    *x *= 3;
                }
            }
            _ => {}
        }
        let mut ops = Vec::new();
        // argv pool: later parses often repeat an earlier argv (same input after a different history)
        let mut pool: Vec<Vec<B>> = Vec::new();
        for i in 0..n_ops {
            let k = if i == 0 && rng.chance(1, 6) { 2 } else { rng.weighted(&w) };
            let mut argv = |rng: &mut Rng, pool: &mut Vec<Vec<B>>| {
                if !pool.is_empty() && rng.chance(1, 3) {
                    rng.pick(pool).clone()
                } else {
                    let a = gen_argv(rng, &spec, 8);
                    pool.push(a.clone());
                    a
                }
            };
            ops.push(match k {
                0 => Op::Parse(argv(rng, &mut pool)),
                1 => Op::ParseClone(argv(rng, &mut pool)),
                2 => Op::Build,
                3 => Op::RenderHelp,
                4 => Op::RenderLongHelp,
                5 => Op::RenderUsage,
                6 => Op::RenderVersion,
                7 => Op::RenderLongVersion,
                8 => Op::WriteHelp,
                9 => Op::WriteLongHelp,
                10 => Op::Error(rng.below(ERROR_KINDS.len() as u64) as u8),
                11 => Op::CloneSwap,
                12 => Op::Introspect,
                14 => Op::Env(rng.below(8) as u8, if rng.chance(1, 4) { None } else { Some(B::s(*rng.pick(&["v1", "v2", "bad", "7", "", "true"]))) }),
                _ => Op::SubRender((0..rng.urange(1, 2)).map(|_| rng.below(4) as u8).collect(), rng.coin()),
            });
        }
        if !ops.iter().any(|o| matches!(o, Op::Parse(_) | Op::ParseClone(_))) {
            ops.push(Op::Parse(gen_argv(rng, &spec, 8)));
        }
        C11Sc { spec, argv0, ops }
    }

    fn exec(&self, sc: &C11Sc, log: &mut Log) -> Outcome {
        let mut out = Outcome::default();
        if let Err(why) = gate(&sc.spec) {
            out.count("misc.specs_rejected_by_gate");
            ev!(log, "gate rejected: {why}");
            return out;
        }
        let mut shape = ShapeHasher::new();
        shape.add(sc.spec.feature_bits());
        // environment variables of this scenario (set/removed by Env events, removed at the end)
        let env_names: Vec<String> = {
            let mut v = Vec::new();
            sc.spec.walk(&mut |c, _| v.extend(c.args.iter().filter_map(|a| a.env.clone())), 0);
            v
        };
        for n in &env_names {
            std::env::remove_var(n);
        }
        let mut aged = build_cmd(&sc.spec);
        // a clone taken right after the definition and never built: "cloned" in the statement
        let pristine = aged.clone();
        let mut env_moved = false;
        // deferred builders make parts of the definition appear only once a subcommand has been
        // built (documented purpose of `defer`), so message identity is not asserted for such trees
        let mut parse_only = !any_defer(&sc.spec);
        let mut ops_before = 0usize;
        for (i, op) in sc.ops.iter().enumerate() {
            out.steps += 1;
            shape.add_str(op.kind());
            match op {
                Op::Parse(argv) | Op::ParseClone(argv) => {
                    let by_clone = matches!(op, Op::ParseClone(_));
                    let full = full_argv(&sc.spec, &sc.argv0, argv);
                    let ra = if by_clone {
                        let c = aged.clone();
                        outcome_of(catch(|| c.try_get_matches_from(full.iter().cloned())))
                    } else {
                        parse_mut(&mut aged, &full)
                    };
                    ev!(log, "{i} {} {:?} -> {}", op.kind(), argv, ra.class());
                    if ops_before > 0 {
                        out.nontrivial = true;
                    }
                    match &ra {
                        POut::Err { kind, .. } => {
                            match kind {
                                ErrorKind::DisplayHelp | ErrorKind::DisplayHelpOnMissingArgumentOrSubcommand => out.count("fault.help_abort"),
                                ErrorKind::DisplayVersion => out.count("fault.version_abort"),
                                ErrorKind::ValueValidation => out.count("fault.value_rejected"),
                                ErrorKind::InvalidUtf8 => out.count("fault.invalid_utf8"),
                                _ => out.count("fault.failing_parse"),
                            }
                            out.count_dyn(format!("op.parse_err_{kind:?}"));
                        }
                        POut::Ok { .. } => out.count("op.parse_ok"),
                        POut::Panic { file, .. } => out.count_dyn(format!("obs.parse_panics_in_{file}")),
                    }
                    if env_moved {
                        // a definition made NOW would legitimately snapshot the new environment; the unbuilt clone
                        // of the original definition is the reference that must agree with the aged value
                        let mut p = pristine.clone();
                        let rp = parse_mut(&mut p, &full);
                        out.comparisons += 1;
                        out.count("probe.compared_with_pristine_clone_after_env_change");
                        if let Some((clause, d)) = compare(&ra, &rp, parse_only) {
                            let site = classify(&sc.spec, "aged-vs-unbuilt-clone-after-env-change", clause, argv, &ra, &rp);
                            out.violate(clause, site.clone(), format!("op {i} ({}), argv {:?}: the long-lived command and an unbuilt clone of the same definition disagree after the environment changed: {d}", op.kind(), argv));
                            if site == "aged-vs-unbuilt-clone-after-env-change" {
                                break;
                            }
                        }
                        ops_before += 1;
                        continue;
                    }
                    let mut fresh = build_cmd(&sc.spec);
                    let rf = parse_mut(&mut fresh, &full);
                    out.comparisons += 1;
                    let site_aged = if by_clone { "aged-clone-vs-fresh" } else { "aged-vs-fresh" };
                    if let Some((clause, d)) = compare(&ra, &rf, parse_only) {
                        let site = classify(&sc.spec, site_aged, clause, argv, &ra, &rf);
                        out.violate(clause, site.clone(), format!("op {i} ({}), argv {:?}, after {} earlier operations: {d}", op.kind(), argv, ops_before));
                        if site == site_aged {
                            break;
                        }
                    }
                    if let (POut::Panic { .. }, POut::Panic { .. }) = (&ra, &rf) {
                        out.count("obs.panic_on_both_sides");
                    }
                    // fresh clone
                    let rc = {
                        let c = build_cmd(&sc.spec).clone();
                        outcome_of(catch(|| c.try_get_matches_from(full.iter().cloned())))
                    };
                    out.comparisons += 1;
                    if let Some((clause, d)) = compare(&rf, &rc, true) {
                        let site = classify(&sc.spec, "clone-vs-fresh", clause, argv, &rf, &rc);
                        out.violate(clause, site.clone(), format!("op {i}, argv {:?}: {d}", argv));
                        if site == "clone-vs-fresh" {
                            break;
                        }
                    }
                    // explicitly built beforehand
                    let rb = {
                        let mut c = build_cmd(&sc.spec);
                        match catch(|| c.build()) {
                            Ok(()) => parse_mut(&mut c, &full),
                            Err(p) => POut::Panic { file: short_file(&p), msg: p.msg },
                        }
                    };
                    out.comparisons += 1;
                    if let Some((clause, d)) = compare(&rf, &rb, false) {
                        let site = classify(&sc.spec, "prebuilt-vs-fresh", clause, argv, &rf, &rb);
                        out.violate(clause, site.clone(), format!("op {i}, argv {:?}: {d}", argv));
                        if site == "prebuilt-vs-fresh" {
                            break;
                        }
                    }
                }
                Op::Build => {
                    // an explicit build() expands the help tree; the statement promises kinds and matches for a
                    // pre-built definition, not message identity (tried: the unchanged tree differs)
                    parse_only = false;
                    let r = catch(|| {
                        aged.build();
                        let d1 = format!("{aged:?}");
                        aged.build();
                        let d2 = format!("{aged:?}");
                        (d1, d2)
                    });
                    ev!(log, "{i} build");
                    match r {
                        Ok((d1, d2)) => {
                            out.comparisons += 1;
                            if d1 != d2 {
                                let at = d1.bytes().zip(d2.bytes()).position(|(a, b)| a != b).unwrap_or(d1.len().min(d2.len()));
                                let lo = at.saturating_sub(120);
                                out.violate("build-idempotence", "build-twice", format!("op {i}: Debug of the command differs after a second build() at byte {at}: ...{} | ...{}", safe_slice(&d1, lo, at + 120), safe_slice(&d2, lo, at + 120)));
                                break;
                            }
                        }
                        Err(p) => {
                            // the gate accepted a fresh build: a panic here is caused by history
                            out.violate("outcome-class", "build-panics-on-aged", format!("op {i}: build() on the aged command panicked: {} at {}", p.msg, p.loc));
                            break;
                        }
                    }
                }
                Op::RenderHelp | Op::RenderLongHelp | Op::RenderUsage | Op::RenderVersion | Op::RenderLongVersion | Op::WriteHelp | Op::WriteLongHelp | Op::Error(_) | Op::Introspect => {
                    // "rendering help or usage in between does not change later parse results": the rendered
                    // message of a later error is part of that result, so message identity stays asserted
                    // after render / write / error operations (only an explicit build() ends it)
                    let r = catch(|| match op {
                        Op::RenderHelp => aged.render_help().to_string().len(),
                        Op::RenderLongHelp => aged.render_long_help().to_string().len(),
                        Op::RenderUsage => aged.render_usage().to_string().len(),
                        Op::RenderVersion => aged.render_version().len(),
                        Op::RenderLongVersion => aged.render_long_version().len(),
                        Op::WriteHelp => {
                            let mut v = Vec::new();
                            let _ = aged.write_help(&mut v);
                            v.len()
                        }
                        Op::WriteLongHelp => {
                            let mut v = Vec::new();
                            let _ = aged.write_long_help(&mut v);
                            v.len()
                        }
                        Op::Error(k) => {
                            let e = aged.error(ERROR_KINDS[*k as usize % ERROR_KINDS.len()], "simulated application error");
                            e.render().to_string().len()
                        }
                        _ => {
                            let mut n = 0;
                            n += aged.get_arguments().count();
                            n += aged.get_subcommands().count();
                            n += aged.get_groups().count();
                            n += aged.get_name().len();
                            n += aged.get_bin_name().map(|s| s.len()).unwrap_or(0);
                            n += aged.get_positionals().count();
                            n += aged.get_opts().count();
                            n
                        }
                    });
                    match r {
                        Ok(n) => ev!(log, "{i} {} -> {n}", op.kind()),
                        Err(p) => {
                            ev!(log, "{i} {} -> panic {}", op.kind(), short_file(&p));
                            out.count_dyn(format!("obs.{}_panics_in_{}", op.kind(), short_file(&p)));
                        }
                    }
                }
                Op::CloneSwap => {
                    aged = aged.clone();
                    ev!(log, "{i} clone_swap");
                }
                Op::Env(k, v) => {
                    if !env_names.is_empty() {
                        let n = &env_names[*k as usize % env_names.len()];
                        match v {
                            Some(b) if !b.0.contains(&0) => std::env::set_var(n, b.as_os()),
                            _ => std::env::remove_var(n),
                        }
                        env_moved = true;
                        out.nontrivial = true;
                        out.count(if v.is_some() { "ambient.env_set_after_definition" } else { "ambient.env_removed_after_definition" });
                        ev!(log, "{i} env {n} <- {:?}", v);
                    }
                }
                Op::SubRender(path, long) => {
                    parse_only = false;
                    let r = catch(|| {
                        aged.build();
                        let mut names: Vec<String> = Vec::new();
                        let mut cur_spec = &sc.spec;
                        for p in path {
                            if cur_spec.subs.is_empty() {
                                break;
                            }
                            cur_spec = &cur_spec.subs[*p as usize % cur_spec.subs.len()];
                            names.push(cur_spec.name.clone());
                        }
                        let mut cur = &mut aged;
                        for n in &names {
                            match cur.find_subcommand_mut(n) {
                                Some(c) => cur = c,
                                None => return 0,
                            }
                        }
                        if *long {
                            cur.render_long_help().to_string().len()
                        } else {
                            cur.render_help().to_string().len()
                        }
                    });
                    match r {
                        Ok(n) => ev!(log, "{i} sub_render {:?} -> {n}", path),
                        Err(p) => {
                            ev!(log, "{i} sub_render -> panic {}", short_file(&p));
                            out.count_dyn(format!("obs.sub_render_panics_in_{}", short_file(&p)));
                        }
                    }
                }
            }
            ops_before += 1;
        }
        for n in &env_names {
            std::env::remove_var(n);
        }
        out.shape = shape.get();
        out
    }

    fn shrink(&self, sc: &C11Sc) -> Vec<C11Sc> {
        let mut c = Vec::new();
        let n = sc.ops.len();
        if n > 2 {
            let mut s = sc.clone();
            s.ops.drain(..n / 2);
            c.push(s);
        }
        for i in 0..n {
            if n > 1 {
                let mut s = sc.clone();
                s.ops.remove(i);
                c.push(s);
            }
        }
        for sp in shrink_spec(&sc.spec) {
            let mut s = sc.clone();
            s.spec = sp;
            c.push(s);
        }
        for i in 0..n {
            if let Op::Parse(a) | Op::ParseClone(a) = &sc.ops[i] {
                for v in shrink_argv(a) {
                    let mut s = sc.clone();
                    s.ops[i] = if matches!(sc.ops[i], Op::Parse(_)) { Op::Parse(v) } else { Op::ParseClone(v) };
                    c.push(s);
                }
            }
            if !matches!(sc.ops[i], Op::Parse(_) | Op::ParseClone(_) | Op::Build) {
                let mut s = sc.clone();
                s.ops[i] = Op::Build;
                c.push(s);
            }
        }
        if sc.argv0 != "prog" && !sc.spec.has(CmdSetting::Multicall) {
            let mut s = sc.clone();
            s.argv0 = "prog".into();
            c.push(s);
        }
        c
    }
}

pub fn safe_slice(s: &str, lo: usize, hi: usize) -> String {
    let mut lo = lo.min(s.len());
    let mut hi = hi.min(s.len());
    while lo > 0 && !s.is_char_boundary(lo) {
        lo -= 1;
    }
    while hi < s.len() && !s.is_char_boundary(hi) {
        hi += 1;
    }
    s[lo..hi].to_string()
}
