//! The `io::Write` seam: a sink whose behaviour per `write` call is decided by a fault plan
//! (scenario data). Benign faults (short writes, EINTR) must be transparent to a correct
//! caller; hard faults (Ok(0), WouldBlock, BrokenPipe, StorageFull, error in flush) end delivery.

use serde::{Deserialize, Serialize};
use std::io::{self, Write};

#[derive(Clone, Copy, Debug, Hash, PartialEq, Eq, Serialize, Deserialize)]
pub enum WFault {
    /// accept at most n bytes of this call (n >= 1)
    Short(u16),
    /// Err(Interrupted) once, then the call is retried by the caller
    Interrupted,
    /// Ok(0): a sink that accepts nothing (write_all reports WriteZero)
    Zero,
    WouldBlock,
    BrokenPipe,
    StorageFull,
    Other,
}

impl WFault {
    pub fn is_hard(self) -> bool {
        !matches!(self, WFault::Short(_) | WFault::Interrupted)
    }
    pub fn name(self) -> &'static str {
        match self {
            WFault::Short(_) => "short_write",
            WFault::Interrupted => "eintr",
            WFault::Zero => "write_zero",
            WFault::WouldBlock => "would_block",
            WFault::BrokenPipe => "broken_pipe",
            WFault::StorageFull => "storage_full",
            WFault::Other => "other_error",
        }
    }
}

#[derive(Clone, Debug, Hash, PartialEq, Eq, Serialize, Deserialize, Default)]
pub struct FaultPlan {
    /// every call accepts at most this many bytes (None = unlimited)
    #[serde(default)]
    pub cap: Option<u32>,
    /// (write-call index, fault), indices counted over all calls including retried ones
    #[serde(default)]
    pub faults: Vec<(u32, WFault)>,
    /// after this many delivered bytes every call fails with StorageFull (disk full at an offset)
    #[serde(default)]
    pub full_at: Option<u32>,
    #[serde(default)]
    pub flush_error: bool,
}

impl FaultPlan {
    pub fn perfect() -> FaultPlan {
        FaultPlan::default()
    }
    pub fn has_hard(&self) -> bool {
        self.full_at.is_some() || self.flush_error || self.faults.iter().any(|(_, f)| f.is_hard())
    }
}

pub struct FaultyWriter<'p> {
    plan: &'p FaultPlan,
    pub delivered: Vec<u8>,
    pub calls: u32,
    pub flush_calls: u32,
    /// faults that actually fired, by name
    pub fired: Vec<&'static str>,
    pub hard_fired: bool,
}

impl<'p> FaultyWriter<'p> {
    pub fn new(plan: &'p FaultPlan) -> Self {
        FaultyWriter {
            plan,
            delivered: Vec::new(),
            calls: 0,
            flush_calls: 0,
            fired: Vec::new(),
            hard_fired: false,
        }
    }
}

impl Write for FaultyWriter<'_> {
    fn write(&mut self, buf: &[u8]) -> io::Result<usize> {
        let idx = self.calls;
        self.calls += 1;
        if buf.is_empty() {
            return Ok(0);
        }
        if let Some(off) = self.plan.full_at {
            let room = (off as usize).saturating_sub(self.delivered.len());
            if room == 0 {
                self.fired.push("storage_full_at_offset");
                self.hard_fired = true;
                return Err(io::Error::new(io::ErrorKind::StorageFull, "simulated: no space left on device"));
            }
        }
        let mut n = buf.len();
        if let Some(c) = self.plan.cap {
            if (c as usize) < n && c > 0 {
                n = c as usize;
                if !self.fired.contains(&"chunk_cap") {
                    self.fired.push("chunk_cap");
                }
            }
        }
        if let Some(off) = self.plan.full_at {
            let room = (off as usize).saturating_sub(self.delivered.len());
            n = n.min(room.max(1));
        }
        if let Some((_, f)) = self.plan.faults.iter().find(|(i, _)| *i == idx) {
            match f {
                WFault::Short(k) => {
                    let k = (*k as usize).max(1);
                    if k < n {
                        n = k;
                        self.fired.push("short_write");
                    }
                }
                WFault::Interrupted => {
                    self.fired.push("eintr");
                    return Err(io::Error::new(io::ErrorKind::Interrupted, "simulated EINTR"));
                }
                WFault::Zero => {
                    self.fired.push("write_zero");
                    self.hard_fired = true;
                    return Ok(0);
                }
                WFault::WouldBlock => {
                    self.fired.push("would_block");
                    self.hard_fired = true;
                    return Err(io::Error::new(io::ErrorKind::WouldBlock, "simulated EAGAIN"));
                }
                WFault::BrokenPipe => {
                    self.fired.push("broken_pipe");
                    self.hard_fired = true;
                    return Err(io::Error::new(io::ErrorKind::BrokenPipe, "simulated EPIPE"));
                }
                WFault::StorageFull => {
                    self.fired.push("storage_full");
                    self.hard_fired = true;
                    return Err(io::Error::new(io::ErrorKind::StorageFull, "simulated ENOSPC"));
                }
                WFault::Other => {
                    self.fired.push("other_error");
                    self.hard_fired = true;
                    return Err(io::Error::new(io::ErrorKind::Other, "simulated EIO"));
                }
            }
        }
        self.delivered.extend_from_slice(&buf[..n]);
        Ok(n)
    }

    fn flush(&mut self) -> io::Result<()> {
        self.flush_calls += 1;
        if self.plan.flush_error {
            self.fired.push("flush_error");
            self.hard_fired = true;
            return Err(io::Error::new(io::ErrorKind::Other, "simulated flush failure"));
        }
        Ok(())
    }
}

pub fn gen_plan(rng: &mut crate::rng::Rng, expected_calls: u32, expected_bytes: u32, allow_hard: bool) -> FaultPlan {
    let mut p = FaultPlan::default();
    if rng.chance(1, 2) {
        p.cap = Some(*rng.pick(&[1u32, 2, 3, 7, 64, 4096]));
    }
    let calls = match p.cap {
        Some(c) => expected_calls.max(expected_bytes / c.max(1)).max(4),
        None => expected_calls.max(4),
    };
    let n_faults = match rng.below(4) {
        0 => 0,
        1 => 1,
        _ => rng.urange(1, 6),
    };
    for _ in 0..n_faults {
        let idx = if rng.chance(1, 3) { rng.below(4) as u32 } else { rng.below(calls as u64 + 2) as u32 };
        let f = if rng.coin() { WFault::Short(1 + rng.below(9) as u16) } else { WFault::Interrupted };
        p.faults.push((idx, f));
    }
    if allow_hard && rng.chance(1, 2) {
        match rng.below(7) {
            0 => p.full_at = Some(rng.below(expected_bytes as u64 + 2) as u32),
            1 => p.flush_error = true,
            k => {
                let idx = if rng.chance(1, 4) { 0 } else { rng.below(calls as u64 + 1) as u32 };
                let f = match k {
                    2 => WFault::Zero,
                    3 => WFault::WouldBlock,
                    4 => WFault::BrokenPipe,
                    5 => WFault::StorageFull,
                    _ => WFault::Other,
                };
                p.faults.push((idx, f));
            }
        }
    }
    p
}

pub fn shrink_plan(p: &FaultPlan) -> Vec<FaultPlan> {
    let mut out = Vec::new();
    for i in 0..p.faults.len() {
        let mut q = p.clone();
        q.faults.remove(i);
        out.push(q);
    }
    if p.cap.is_some() {
        let mut q = p.clone();
        q.cap = None;
        out.push(q);
    }
    if p.full_at.is_some() {
        let mut q = p.clone();
        q.full_at = None;
        out.push(q);
    }
    if p.flush_error {
        let mut q = p.clone();
        q.flush_error = false;
        out.push(q);
    }
    out
}
