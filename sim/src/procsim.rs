//! procsim — the exit-code / stream contract of clap's own printing paths under broken output
//! streams (C10, narrow). A child process (re-exec of this binary) builds the command and calls
//! `get_matches_from` / `print_help` / `Error::print`+`exit`; the parent arranges its stdout and
//! stderr BEFORE the spawn (closed pipe = EPIPE, /dev/full = ENOSPC, /dev/null, capture), so
//! nothing depends on timing.

use crate::bytes::B;
use crate::cmdsim::{full_argv, outcome_of, POut};
use crate::core::*;
use crate::ev;
use crate::gen::{gen_argv, gen_tree, GenCfg};
use crate::rng::Rng;
use crate::spec::*;
use clap::error::ErrorKind;
use serde::{Deserialize, Serialize};
use std::io::{Read, Write};
use std::process::{Command as PCommand, Stdio};

#[derive(Clone, Copy, Debug, Hash, Serialize, Deserialize, PartialEq, Eq)]
pub enum Fd {
    Capture,
    ClosedPipe,
    DevFull,
    DevNull,
}

#[derive(Clone, Copy, Debug, Hash, Serialize, Deserialize, PartialEq, Eq)]
pub enum ChildMode {
    /// `Command::get_matches_from` (prints and exits inside clap on error)
    GetMatches,
    /// `try_get_matches_from`, then `Error::print` and `exit(Error::exit_code())`
    TryPrintExit,
    /// `try_get_matches_from`, then `Error::exit`
    TryExit,
    PrintHelp,
    PrintLongHelp,
}

#[derive(Clone, Debug, Hash, Serialize, Deserialize, PartialEq)]
pub struct ProcSc {
    pub spec: CmdSpec,
    pub argv: Vec<B>,
    pub mode: ChildMode,
    pub stdout: Fd,
    pub stderr: Fd,
    /// `Command::color`: 0 not called, 1 Never, 2 Always, 3 Auto
    #[serde(default)]
    pub color: u8,
}

#[derive(Serialize, Deserialize)]
struct ChildInput {
    spec: CmdSpec,
    argv: Vec<B>,
    mode: ChildMode,
    #[serde(default)]
    color: u8,
}

pub struct ProcSim;

/// Entry point of the child process: reads the scenario from stdin, never returns.
pub fn child_main() -> ! {
    let mut s = String::new();
    let _ = std::io::stdin().read_to_string(&mut s);
    let inp: ChildInput = match serde_json::from_str(&s) {
        Ok(i) => i,
        Err(_) => std::process::exit(90),
    };
    // restore the default panic behaviour: a panic in clap must be visible as exit code 101
    let _ = std::panic::take_hook();
    let mut cmd = build_cmd(&inp.spec);
    cmd = match inp.color {
        1 => cmd.color(clap::ColorChoice::Never),
        2 => cmd.color(clap::ColorChoice::Always),
        3 => cmd.color(clap::ColorChoice::Auto),
        _ => cmd,
    };
    let full = full_argv(&inp.spec, "prog", &inp.argv);
    match inp.mode {
        ChildMode::GetMatches => {
            let _m = cmd.get_matches_from(full);
            std::process::exit(0)
        }
        ChildMode::TryPrintExit => match cmd.try_get_matches_from_mut(full) {
            Ok(_) => std::process::exit(0),
            Err(e) => {
                let _ = e.print();
                std::process::exit(e.exit_code())
            }
        },
        ChildMode::TryExit => match cmd.try_get_matches_from_mut(full) {
            Ok(_) => std::process::exit(0),
            Err(e) => e.exit(),
        },
        ChildMode::PrintHelp => {
            let _ = cmd.print_help();
            std::process::exit(0)
        }
        ChildMode::PrintLongHelp => {
            let _ = cmd.print_long_help();
            std::process::exit(0)
        }
    }
}

/// Checks `tip:` lines of a rendered error against the command tree.
fn suggestion_names_nothing(spec: &CmdSpec, rendered: &str) -> Option<String> {
    fn longs(c: &CmdSpec, inherited: &[String]) -> Vec<String> {
        let mut v: Vec<String> = inherited.to_vec();
        for a in &c.args {
            if let Some(l) = &a.long {
                v.push(l.clone());
            }
            v.extend(a.aliases.iter().cloned());
            v.extend(a.visible_aliases.iter().cloned());
        }
        for s in &c.subs {
            if let Some(l) = &s.long_flag {
                v.push(l.clone());
            }
            v.extend(s.long_flag_aliases.iter().cloned());
            v.extend(s.visible_long_flag_aliases.iter().cloned());
        }
        v.push("help".into());
        v.push("version".into());
        if c.defer != 0 {
            v.push("deferred-flag".into());
            v.push("deferred-opt".into());
        }
        v
    }
    fn find_sub<'a>(c: &'a CmdSpec, name: &str, inherited: &mut Vec<String>) -> Vec<(&'a CmdSpec, Vec<String>)> {
        let mut out = Vec::new();
        let mut inh = inherited.clone();
        for a in c.args.iter().filter(|a| a.global) {
            if let Some(l) = &a.long {
                inh.push(l.clone());
            }
            inh.extend(a.aliases.iter().cloned());
            inh.extend(a.visible_aliases.iter().cloned());
        }
        for s in &c.subs {
            if s.all_names().iter().any(|n| n == name) {
                out.push((s, inh.clone()));
            }
            out.extend(find_sub(s, name, &mut inh.clone()));
        }
        out
    }
    // the closing line "For more information, try 'help'." names the help SUBCOMMAND: it has to exist
    if rendered.lines().any(|l| l.trim() == "For more information, try 'help'.") {
        let mut any_subs = false;
        spec.walk(&mut |c, _| any_subs |= !c.subs.is_empty(), 0);
        if spec.has(CmdSetting::DisableHelpSubcommand) || !any_subs {
            return Some("the closing line says `try 'help'`, but the help subcommand is disabled (or there is no subcommand at all)".to_string());
        }
    }
    for line in rendered.lines() {
        let l = line.trim();
        let Some(t) = l.strip_prefix("tip: ") else { continue };
        // "'<sub> --<flag>' exists"
        if let Some(rest) = t.strip_suffix("' exists").and_then(|x| x.strip_prefix('\'')) {
            if let Some((sub, flag)) = rest.rsplit_once(" --") {
                let cands = find_sub(spec, sub, &mut Vec::new());
                if cands.is_empty() && sub != "help" {
                    return Some(format!("the tip names subcommand `{sub}` which does not exist"));
                }
                if !cands.is_empty() && !cands.iter().any(|(c, inh)| longs(c, inh).iter().any(|x| x == flag)) {
                    return Some(format!("the tip says `{sub} --{flag}` exists but no subcommand `{sub}` has a flag --{flag}"));
                }
            }
        }
        // "a similar argument exists: '--flag'"
        if let Some(rest) = t.strip_prefix("a similar argument exists: '") {
            let name = rest.trim_end_matches('\'');
            if let Some(flag) = name.strip_prefix("--") {
                let mut all = Vec::new();
                spec.walk(&mut |c, _| all.extend(longs(c, &[])), 0);
                if !all.iter().any(|x| x == flag) {
                    return Some(format!("the tip names --{flag} which exists nowhere in the tree"));
                }
            }
        }
        // "a similar value exists: 'name'" (possibly several, separated by `', '`)
        if let Some(rest) = t.strip_prefix("a similar value exists: '").or_else(|| t.strip_prefix("some similar values exist: '")) {
            let mut declared: Vec<String> = vec!["true".into(), "false".into()];
            spec.walk(
                &mut |c, _| {
                    for a in &c.args {
                        match &a.parser {
                            ValParser::Possible(pvs) => {
                                for p in pvs {
                                    declared.push(p.name.clone());
                                    declared.extend(p.aliases.iter().cloned());
                                }
                            }
                            ValParser::EnumVp => declared.extend(SIM_ENUM_LANGUAGE.iter().map(|(n, _)| n.to_string())),
                            _ => {}
                        }
                    }
                },
                0,
            );
            for name in rest.trim_end_matches('\'').split("', '") {
                if !declared.iter().any(|d| d == name) {
                    return Some(format!("the tip names the value `{name}` which no argument declares (in that spelling)"));
                }
            }
        }
        // "a similar subcommand exists: 'name'"
        if let Some(rest) = t.strip_prefix("a similar subcommand exists: '") {
            let name = rest.trim_end_matches('\'');
            let mut all = vec!["help".to_string()];
            spec.walk(&mut |c, _| all.extend(c.all_names()), 0);
            if !all.iter().any(|x| x == name) {
                return Some(format!("the tip names subcommand `{name}` which exists nowhere in the tree"));
            }
        }
    }
    None
}

struct ChildResult {
    code: Option<i32>,
    signal: Option<i32>,
    out: Vec<u8>,
    err: Vec<u8>,
}

fn stdio_for(fd: Fd) -> std::io::Result<(Stdio, Option<std::io::PipeReader>)> {
    Ok(match fd {
        Fd::Capture => {
            let (r, w) = std::io::pipe()?;
            (Stdio::from(w), Some(r))
        }
        Fd::ClosedPipe => {
            let (r, w) = std::io::pipe()?;
            drop(r);
            (Stdio::from(w), None)
        }
        Fd::DevFull => (Stdio::from(std::fs::OpenOptions::new().write(true).open("/dev/full")?), None),
        Fd::DevNull => (Stdio::null(), None),
    })
}

fn run_child(input: &ChildInput, stdout: Fd, stderr: Fd) -> Result<ChildResult, String> {
    use std::os::unix::process::ExitStatusExt;
    let exe = std::env::current_exe().map_err(|e| e.to_string())?;
    let exe = match exe.to_str().and_then(|s| s.strip_suffix(" (deleted)")) {
        Some(s) => std::path::PathBuf::from(s),
        None => exe,
    };
    let (so, so_r) = stdio_for(stdout).map_err(|e| e.to_string())?;
    let (se, se_r) = stdio_for(stderr).map_err(|e| e.to_string())?;
    let mut c = PCommand::new(exe);
    c.arg("child-cli").arg("x");
    c.env_clear().env("PATH", "/usr/bin:/bin");
    c.stdin(Stdio::piped()).stdout(so).stderr(se);
    let mut child = c.spawn().map_err(|e| format!("spawn: {e}"))?;
    // the parent's copies of the write ends were moved into the Command; dropping it closes them
    drop(c);
    {
        let mut si = child.stdin.take().unwrap();
        let _ = si.write_all(serde_json::to_string(input).unwrap().as_bytes());
    }
    let read_all = |r: Option<std::io::PipeReader>| -> std::thread::JoinHandle<Vec<u8>> {
        std::thread::spawn(move || {
            let mut v = Vec::new();
            if let Some(mut r) = r {
                let _ = r.read_to_end(&mut v);
            }
            v
        })
    };
    let t_out = read_all(so_r);
    let t_err = read_all(se_r);
    // bounded wait
    let start = std::time::Instant::now();
    let status = loop {
        match child.try_wait() {
            Ok(Some(st)) => break st,
            Ok(None) => {
                if start.elapsed() > std::time::Duration::from_secs(20) {
                    let _ = child.kill();
                    let _ = child.wait();
                    return Err("child did not exit within 20 s".into());
                }
                std::thread::sleep(std::time::Duration::from_millis(1));
            }
            Err(e) => return Err(e.to_string()),
        }
    };
    let out = t_out.join().unwrap_or_default();
    let err = t_err.join().unwrap_or_default();
    Ok(ChildResult { code: status.code(), signal: status.signal(), out, err })
}

impl Engine for ProcSim {
    type Sc = ProcSc;
    fn prop(&self) -> &'static str {
        "C10"
    }
    fn meta(&self) -> Meta {
        Meta {
            engine: "procsim",
            level: "fault_enumeration",
            rule: "a scenario is a command tree + argv + one of five printing paths (get_matches_from; try + Error::print + exit(exit_code); try + Error::exit; print_help; print_long_help) executed in a CHILD PROCESS whose stdout and stderr the parent has arranged before the spawn: capturing pipe, pipe whose read end is already closed (EPIPE), /dev/full (ENOSPC), /dev/null. Every scenario runs under its own fault pair and under the all-capture reference; the 4x4 fault matrix is covered by seeded sampling. Non-trivial = a non-capture stream in the pair; distinct = distinct scenario hash. Added during the build phase: Command::color(Never / Always / Auto), programs without help flag / help subcommand, near-miss bare words; riders on every tip and on the closing line",
            real_components: &["clap_builder::error::Error::{print, exit, exit_code, use_stderr}", "clap_builder::output::fmt::Colorizer::print", "Command::get_matches_from / print_help", "the real file descriptors of a real child process"],
            stub_components: &["the parent arranges the child's stdout/stderr (closed pipe, /dev/full, /dev/null, capture)"],
            workload_only_clauses: &["which error kind an argv produces is taken from an in-process parse of the same scenario; whether that kind is justified is not decided here"],
            assumptions: &["narrow claim: only the last sentence of the statement (stream and exit code per kind) under I/O faults", "the kind is obtained from an in-process parse of the same command and argv"],
            abort_is_violation: false,
        }
    }
    fn runs(&self, tier: Tier) -> u64 {
        match tier {
            Tier::Quick => 20_000,
            Tier::Thorough => 500_000,
        }
    }
    fn heartbeat(&self) -> u64 {
        32
    }
    fn gen(&self, rng: &mut Rng, _tier: Tier) -> ProcSc {
        let mut cfg = GenCfg::parse_heavy();
        cfg.help_features = rng.coin();
        cfg.allow_multicall = false;
        cfg.allow_no_binary_name = false;
        let mut spec = gen_tree(rng, &cfg);
        for _ in 0..3 {
            if gate(&spec).is_ok() {
                break;
            }
            spec = gen_tree(rng, &cfg);
        }
        // now and then a program without the generated help flag and / or help subcommand (the closing line of
        // an error must then not point at them)
        if rng.chance(1, 6) {
            let before = spec.clone();
            spec.set(CmdSetting::DisableHelpFlag);
            if rng.coin() {
                spec.set(CmdSetting::DisableHelpSubcommand);
            }
            if gate(&spec).is_err() {
                spec = before;
            }
        }
        let mut argv = gen_argv(rng, &spec, 7);
        match rng.below(8) {
            0 => argv = vec![B::s("--help")],
            1 => argv = vec![B::s("-h")],
            2 => argv = vec![B::s("--version")],
            3 => argv.push(B::s("--definitely-unknown")),
            _ => {}
        }
        let fd = |rng: &mut Rng| *rng.pick(&[Fd::Capture, Fd::ClosedPipe, Fd::ClosedPipe, Fd::DevFull, Fd::DevFull, Fd::DevNull]);
        ProcSc {
            spec,
            argv,
            mode: *rng.pick(&[ChildMode::GetMatches, ChildMode::GetMatches, ChildMode::TryPrintExit, ChildMode::TryExit, ChildMode::PrintHelp, ChildMode::PrintLongHelp]),
            stdout: fd(rng),
            stderr: fd(rng),
            color: *rng.pick(&[0u8, 0, 1, 1, 2, 3]),
        }
    }
    fn exec(&self, sc: &ProcSc, log: &mut Log) -> Outcome {
        let mut out = Outcome::default();
        if let Err(why) = gate(&sc.spec) {
            out.count("misc.specs_rejected_by_gate");
            ev!(log, "gate rejected: {why}");
            return out;
        }
        let r = catch(|| exec_proc(sc, log, &mut out));
        if let Err(p) = r {
            out.violate("HARNESS-PANIC", short_file(&p), format!("{} at {}", p.msg, p.loc));
        }
        out
    }
    fn shrink(&self, sc: &ProcSc) -> Vec<ProcSc> {
        let mut c = Vec::new();
        for sp in shrink_spec(&sc.spec) {
            let mut s = sc.clone();
            s.spec = sp;
            c.push(s);
        }
        for a in shrink_argv(&sc.argv) {
            let mut s = sc.clone();
            s.argv = a;
            c.push(s);
        }
        if sc.stdout != Fd::Capture {
            let mut s = sc.clone();
            s.stdout = Fd::Capture;
            c.push(s);
        }
        if sc.stderr != Fd::Capture {
            let mut s = sc.clone();
            s.stderr = Fd::Capture;
            c.push(s);
        }
        c
    }
}

fn exec_proc(sc: &ProcSc, log: &mut Log, out: &mut Outcome) {
    let mut shape = ShapeHasher::new();
    shape.add(sc.mode as u64);
    shape.add(sc.stdout as u64 * 4 + sc.stderr as u64);
    // expected kind from an in-process parse of the same scenario
    let full = full_argv(&sc.spec, "prog", &sc.argv);
    let mut cmd = build_cmd(&sc.spec);
    let parsed = outcome_of(catch(|| cmd.try_get_matches_from_mut(full.iter().cloned())));
    let (expect_code, to_stdout, to_stderr, kind_txt): (i32, bool, bool, String) = match (&sc.mode, &parsed) {
        (ChildMode::PrintHelp | ChildMode::PrintLongHelp, _) => (0, true, false, "print_help".into()),
        (_, POut::Panic { file, .. }) => {
            out.count_dyn(format!("obs.in_process_parse_panics_in_{file}"));
            return;
        }
        (_, POut::Ok { .. }) => (0, false, false, "Ok".into()),
        (_, POut::Err { kind, use_stderr, exit_code, rendered }) => {
            // workload-only rider: a `tip:` never names something that does not exist
            out.comparisons += 1;
            if let Some(d) = suggestion_names_nothing(&sc.spec, rendered) {
                out.violate("suggestion-names-nonexistent", format!("{kind:?}"), format!("argv {:?}: {d}\n{rendered}", sc.argv));
                return;
            }
            // in-process rider: stream and exit code are functions of the kind
            let help_like = matches!(kind, ErrorKind::DisplayHelp | ErrorKind::DisplayVersion);
            out.comparisons += 1;
            if *use_stderr == help_like || *exit_code != if help_like { 0 } else { 2 } {
                out.violate("kind-stream-exit-mismatch", format!("{kind:?}"), format!("argv {:?}: kind {kind:?} reports use_stderr={use_stderr} exit_code={exit_code}", sc.argv));
                return;
            }
            (if help_like { 0 } else { 2 }, help_like, !help_like, format!("{kind:?}"))
        }
    };
    let input = ChildInput { spec: sc.spec.clone(), argv: sc.argv.clone(), mode: sc.mode, color: sc.color };
    let configs: Vec<(Fd, Fd)> = if (sc.stdout, sc.stderr) == (Fd::Capture, Fd::Capture) { vec![(Fd::Capture, Fd::Capture)] } else { vec![(Fd::Capture, Fd::Capture), (sc.stdout, sc.stderr)] };
    for (so, se) in configs {
        out.steps += 1;
        let r = match run_child(&input, so, se) {
            Ok(r) => r,
            Err(e) => {
                if e.contains("did not exit") {
                    out.violate("child-hang", format!("{:?}", sc.mode), format!("argv {:?} with stdout={so:?} stderr={se:?}: {e}", sc.argv));
                } else {
                    out.violate("HARNESS-PANIC", "spawn", e);
                }
                return;
            }
        };
        for (fd, name) in [(so, "stdout"), (se, "stderr")] {
            match fd {
                Fd::ClosedPipe => {
                    out.count_dyn(format!("fault.{name}_closed_pipe_epipe"));
                    out.nontrivial = true;
                }
                Fd::DevFull => {
                    out.count_dyn(format!("fault.{name}_dev_full_enospc"));
                    out.nontrivial = true;
                }
                Fd::DevNull => out.count_dyn(format!("ambient.{name}_dev_null")),
                Fd::Capture => {}
            }
        }
        out.comparisons += 1;
        out.count_dyn(format!("op.child_{:?}", sc.mode));
        ev!(log, "{:?} argv {:?} [{kind_txt}] stdout={so:?} stderr={se:?} -> code={:?} signal={:?} out={} err={}", sc.mode, sc.argv, r.code, r.signal, r.out.len(), r.err.len());
        let err_txt = String::from_utf8_lossy(&r.err).to_string();
        if let Some(sig) = r.signal {
            out.violate("child-killed-by-signal", format!("{:?}", sc.mode), format!("argv {:?} [{kind_txt}] with stdout={so:?} stderr={se:?}: child terminated by signal {sig}", sc.argv));
            return;
        }
        if r.code == Some(101) || err_txt.contains("panicked at") {
            out.violate("child-panicked", format!("{:?}", sc.mode), format!("argv {:?} [{kind_txt}] with stdout={so:?} stderr={se:?}: exit {:?}, stderr: {}", sc.argv, r.code, crate::cmdsim::safe_slice(&err_txt, 0, 500)));
            return;
        }
        if r.code != Some(expect_code) {
            out.violate("wrong-exit-code", format!("{:?}", sc.mode), format!("argv {:?} [{kind_txt}] with stdout={so:?} stderr={se:?}: exit code {:?}, the contract says {expect_code}", sc.argv, r.code));
            return;
        }
        if so == Fd::Capture && se == Fd::Capture {
            if !to_stdout && !r.out.is_empty() {
                out.violate("wrong-stream", "stdout", format!("argv {:?} [{kind_txt}]: {} bytes on stdout for an outcome that does not use it: {:?}", sc.argv, r.out.len(), crate::cmdsim::safe_slice(&String::from_utf8_lossy(&r.out), 0, 200)));
                return;
            }
            if !to_stderr && !r.err.is_empty() {
                out.violate("wrong-stream", "stderr", format!("argv {:?} [{kind_txt}]: {} bytes on stderr for an outcome that does not use it: {:?}", sc.argv, r.err.len(), crate::cmdsim::safe_slice(&err_txt, 0, 200)));
                return;
            }
            if (to_stdout && r.out.is_empty()) || (to_stderr && r.err.is_empty()) {
                out.violate("wrong-stream", "silent", format!("argv {:?} [{kind_txt}]: nothing was printed on the designated stream", sc.argv));
                return;
            }
        }
    }
    out.shape = shape.get();
}
