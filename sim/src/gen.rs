//! Seeded workload generation: command trees (swarm style: each run enables a random subset of
//! features) and argument vectors assembled from a pool derived from the tree.

use crate::bytes::B;
use crate::rng::Rng;
use crate::spec::*;
use std::collections::BTreeSet;

#[derive(Clone, Debug)]
pub struct GenCfg {
    pub max_depth: usize,
    pub max_args: usize,
    pub max_subs: usize,
    /// parse-affecting features (relations, settings)
    pub parse_features: bool,
    /// descriptive text, headings, hidden items, help layout knobs
    pub help_features: bool,
    pub allow_multicall: bool,
    pub allow_no_binary_name: bool,
    pub allow_ignore_errors: bool,
    pub allow_defer: bool,
    pub allow_env: bool,
    pub allow_external: bool,
    /// hyphens, underscores, non-ASCII letters in names
    pub hostile_names: bool,
    pub allow_custom_template: bool,
    pub allow_double_underscore: bool,
    pub value_hints: bool,
    pub allow_flag_subs: bool,
    /// digits as short flags (`-8` then also looks like a negative number)
    pub digit_shorts: bool,
    pub text: TextKind,
}

#[derive(Clone, Copy, Debug, PartialEq)]
pub enum TextKind {
    Plain,
    /// wide / zero-width characters, long lines, newlines
    Layout,
    /// leading `.`/`'`, backslashes, quotes, `$(..)`, newlines, empty
    Adversarial,
}

impl GenCfg {
    pub fn parse_heavy() -> GenCfg {
        GenCfg {
            max_depth: 2,
            max_args: 6,
            max_subs: 3,
            parse_features: true,
            help_features: false,
            allow_multicall: true,
            allow_no_binary_name: true,
            allow_ignore_errors: true,
            allow_defer: true,
            allow_env: false,
            allow_external: true,
            hostile_names: true,
            allow_custom_template: false,
            allow_double_underscore: false,
            value_hints: false,
            allow_flag_subs: true,
            digit_shorts: true,
            text: TextKind::Plain,
        }
    }
    pub fn help_heavy() -> GenCfg {
        GenCfg {
            max_depth: 2,
            max_args: 6,
            max_subs: 3,
            parse_features: true,
            help_features: true,
            allow_multicall: false,
            allow_no_binary_name: false,
            allow_ignore_errors: false,
            allow_defer: false,
            allow_env: true,
            allow_external: true,
            hostile_names: true,
            allow_custom_template: true,
            allow_double_underscore: false,
            value_hints: false,
            allow_flag_subs: true,
            digit_shorts: true,
            text: TextKind::Layout,
        }
    }
    pub fn generator_heavy() -> GenCfg {
        GenCfg {
            max_depth: 2,
            max_args: 5,
            max_subs: 3,
            parse_features: false,
            help_features: true,
            allow_multicall: false,
            allow_no_binary_name: false,
            allow_ignore_errors: false,
            allow_defer: false,
            allow_env: true,
            allow_external: false,
            hostile_names: true,
            allow_custom_template: false,
            allow_double_underscore: false,
            value_hints: true,
            allow_flag_subs: false,
            digit_shorts: true,
            text: TextKind::Adversarial,
        }
    }
}

const SHORT_POOL: &str = "abcdefgijklmnopqrstuvwxyzABCDEFGIJKLMNOPQRSTUWXYZ0123456789";
const LONG_BASES: &[&str] = &["opt", "option", "out", "output", "in", "input", "col", "color", "cfg", "conf", "x", "lvl", "level"];
const LONG_BASES_HOSTILE: &[&str] = &["long-name", "under_score", "d\u{e9}j", "a-b_c", "k8s-x"];
const SUB_BASES: &[&str] = &["sub", "cmd", "run", "remote", "re", "add", "list", "ls", "sh", "show"];
const SUB_BASES_HOSTILE: &[&str] = &["sub-cmd", "my_cmd", "a-b_c", "x-y-z", "caf\u{e9}"];

pub struct Names {
    counter: usize,
    shorts_left: Vec<char>,
    hostile: bool,
}

impl Names {
    pub fn new(rng: &mut Rng, hostile: bool, digits: bool) -> Names {
        let mut shorts: Vec<char> = SHORT_POOL.chars().filter(|c| digits || !c.is_ascii_digit()).collect();
        if hostile {
            shorts.push('\u{e9}');
            shorts.push('?');
            shorts.push('@');
        }
        rng.shuffle(&mut shorts);
        Names {
            counter: 10,
            shorts_left: shorts,
            hostile,
        }
    }
    pub fn next_n(&mut self) -> usize {
        self.counter += 1;
        self.counter
    }
    pub fn short(&mut self) -> Option<char> {
        self.shorts_left.pop()
    }
    pub fn long(&mut self, rng: &mut Rng, n: usize) -> String {
        let base = if self.hostile && rng.chance(1, 4) { *rng.pick(LONG_BASES_HOSTILE) } else { *rng.pick(LONG_BASES) };
        format!("{base}{n:03}")
    }
    pub fn sub(&mut self, rng: &mut Rng, n: usize, dunder: bool) -> String {
        if dunder {
            return format!("du__b{n:03}");
        }
        let base = if self.hostile && rng.chance(1, 3) { *rng.pick(SUB_BASES_HOSTILE) } else { *rng.pick(SUB_BASES) };
        format!("{base}{n:03}")
    }
}

const WORDS: &[&str] = &["the", "quick", "brown", "fox", "jumps", "over", "lazy", "dog", "file", "path", "value", "sets", "a", "of", "to", "configuration", "verbosity", "and"];
const LAYOUT_BITS: &[&str] = &["\u{4f60}\u{597d}", "e\u{301}", "\u{1f600}", "supercalifragilisticexpialidocious-unbreakable-word-that-is-long", "\n", "\n\n", "  ", "\t", "- item", "a|b", "[x]", "<y>"];
const ADV_BITS: &[&str] = &[".SH", "'ne 3", "\\fB", "\\", "\"", "'", "`id`", "$(id)", "${x}", "[", "]", ":", "\n", "\n.", "\n'", "\\n", ".", "..", "-", "--", "%", "\u{e9}", "{", "}", "|", ";", "&", "#", "!", "\\-", "\\&", "(", ")"];

const LINE_ATTACKS: &[&str] = &["\n.so /etc/passwd\n", "\n.SH INJECTED\n", "\n'ne 3\n", "\n.TH X 1\n", "\n\n.br\n", "\n  .RS\n", "\n.\n", "\n'\n"];

pub fn gen_text(rng: &mut Rng, kind: TextKind, tag: &str) -> String {
    let mut s = String::new();
    let n = match rng.below(6) {
        0 => 0,
        1 => 1,
        2 | 3 => rng.urange(2, 5),
        _ => rng.urange(4, 18),
    };
    let mut tag_put = false;
    for i in 0..n {
        if !s.is_empty() && !s.ends_with('\n') {
            s.push(' ');
        }
        if !tag_put && (rng.chance(1, 3) || i + 1 == n) {
            s.push_str(tag);
            tag_put = true;
            continue;
        }
        match kind {
            TextKind::Plain => s.push_str(*rng.pick(WORDS)),
            TextKind::Layout => {
                if rng.chance(1, 5) {
                    s.push_str(*rng.pick(LAYOUT_BITS))
                } else {
                    s.push_str(*rng.pick(WORDS))
                }
            }
            TextKind::Adversarial => {
                if rng.chance(1, 8) {
                    // a whole later line that would be a roff request / shell statement if emitted verbatim
                    s.push_str(*rng.pick(LINE_ATTACKS))
                } else if rng.chance(1, 3) {
                    s.push_str(*rng.pick(ADV_BITS))
                } else {
                    s.push_str(*rng.pick(WORDS))
                }
            }
        }
    }
    if kind == TextKind::Adversarial && rng.chance(1, 6) {
        s = format!("{}{}", rng.pick(&[".", "'", "\\", ".\\\"", "\n."]), s);
    }
    s
}

/// Per-tree swarm switches.
#[derive(Clone, Debug)]
struct Swarm {
    globals: bool,
    aliases: bool,
    flag_subs: bool,
    external: bool,
    infer_sub: bool,
    infer_long: bool,
    acws: bool,
    sub_required: bool,
    areh: bool,
    propagate_version: bool,
    flatten_help: bool,
    disable_help_sub: bool,
    groups: bool,
    relations: bool,
    last_pos: bool,
    trailing: bool,
    hyphen_values: bool,
    terminators: bool,
    delimiters: bool,
    defaults: bool,
    typed: bool,
    reject_cb: bool,
    hidden: bool,
    headings: bool,
    optional_values: bool,
    multi: bool,
    require_equals: bool,
    override_self: bool,
    positionals: bool,
    subs_negate: bool,
    precedence: bool,
    missing_positional: bool,
    next_line: bool,
    actions_help: bool,
    exclusive: bool,
    version: bool,
}

fn swarm(rng: &mut Rng) -> Swarm {
    let mut b = |num: u64, den: u64| rng.chance(num, den);
    Swarm {
        globals: b(1, 2),
        aliases: b(1, 2),
        flag_subs: b(1, 3),
        external: b(1, 3),
        infer_sub: b(1, 4),
        infer_long: b(1, 4),
        acws: b(1, 5),
        sub_required: b(1, 6),
        areh: b(1, 6),
        propagate_version: b(1, 4),
        flatten_help: b(1, 5),
        disable_help_sub: b(1, 8),
        groups: b(1, 3),
        relations: b(1, 2),
        last_pos: b(1, 4),
        trailing: b(1, 4),
        hyphen_values: b(1, 3),
        terminators: b(1, 5),
        delimiters: b(1, 3),
        defaults: b(1, 2),
        typed: b(1, 2),
        reject_cb: b(1, 4),
        hidden: b(1, 2),
        headings: b(1, 3),
        optional_values: b(1, 3),
        multi: b(2, 3),
        require_equals: b(1, 5),
        override_self: b(1, 6),
        positionals: b(3, 4),
        subs_negate: b(1, 5),
        precedence: b(1, 4),
        missing_positional: b(1, 6),
        next_line: b(1, 5),
        actions_help: b(1, 6),
        exclusive: b(1, 6),
        version: b(2, 3),
    }
}

pub fn gen_tree(rng: &mut Rng, cfg: &GenCfg) -> CmdSpec {
    let sw = swarm(rng);
    let mut names = Names::new(rng, cfg.hostile_names, cfg.digit_shorts);
    let depth = rng.usize(cfg.max_depth + 1);
    let multicall = cfg.allow_multicall && rng.chance(1, 12);
    let mut root = gen_level(rng, cfg, &sw, &mut names, 0, depth, multicall, &[]);
    root.name = if cfg.hostile_names && rng.chance(1, 5) { (*rng.pick(&["my-app", "my_app", "app.rs", "a b"])).to_string() } else { "prog".to_string() };
    if sw.version {
        root.version = Some(format!("1.{}.0", rng.below(10)));
        if cfg.help_features && rng.chance(1, 4) {
            root.long_version = Some(gen_text(rng, cfg.text, "longver"));
        }
    }
    if sw.propagate_version && root.version.is_some() && !multicall {
        root.set(CmdSetting::PropagateVersion);
    }
    if multicall {
        root.set(CmdSetting::Multicall);
    } else if cfg.allow_no_binary_name && rng.chance(1, 12) {
        root.set(CmdSetting::NoBinaryName);
    }
    if cfg.allow_ignore_errors && rng.chance(1, 8) {
        root.set(CmdSetting::IgnoreErrors);
    }
    if cfg.help_features {
        if rng.chance(1, 4) {
            root.term_width = Some(*rng.pick(&[0usize, 1, 10, 20, 40, 80, 120, 200, 1000]));
        }
        if rng.chance(1, 6) {
            root.max_term_width = Some(*rng.pick(&[0usize, 15, 30, 60, 100]));
        }
    }
    root
}

#[allow(clippy::too_many_arguments)]
fn gen_level(rng: &mut Rng, cfg: &GenCfg, sw: &Swarm, names: &mut Names, level: usize, max_depth: usize, multicall_root: bool, inherited_globals: &[String]) -> CmdSpec {
    let mut c = CmdSpec::default();
    let n = names.next_n();
    let dunder = cfg.allow_double_underscore && rng.chance(1, 3);
    c.name = names.sub(rng, n, dunder);
    let is_root = level == 0;
    let has_subs = level < max_depth && cfg.max_subs > 0;
    let n_subs = if has_subs { rng.urange(1, cfg.max_subs) } else { 0 };
    let no_args_here = multicall_root && is_root;

    // ---- settings
    if cfg.parse_features {
        if sw.infer_sub && rng.chance(2, 3) {
            c.set(CmdSetting::InferSubcommands);
        }
        if sw.infer_long && rng.chance(2, 3) {
            c.set(CmdSetting::InferLongArgs);
        }
        if n_subs > 0 {
            if sw.acws && rng.chance(1, 2) {
                c.set(CmdSetting::ArgsConflictsWithSubcommands);
            }
            if sw.sub_required && rng.chance(1, 2) {
                c.set(CmdSetting::SubcommandRequired);
            }
            if sw.subs_negate && rng.chance(1, 2) {
                c.set(CmdSetting::SubcommandNegatesReqs);
            }
            if sw.precedence && rng.chance(1, 2) {
                c.set(CmdSetting::SubcommandPrecedenceOverArg);
            }
            if sw.disable_help_sub && rng.chance(1, 2) {
                c.set(CmdSetting::DisableHelpSubcommand);
            }
        }
        if sw.areh && rng.chance(1, 2) && !no_args_here {
            c.set(CmdSetting::ArgRequiredElseHelp);
        }
        if sw.external && cfg.allow_external && rng.chance(1, 2) && !(multicall_root && is_root) {
            c.set(CmdSetting::AllowExternalSubcommands);
            c.ext_parser = rng.below(3) as u8;
        }
        if sw.override_self && rng.chance(1, 2) {
            c.set(CmdSetting::ArgsOverrideSelf);
        }
        if rng.chance(1, 10) {
            c.set(CmdSetting::DontDelimitTrailingValues);
        }
    }
    if sw.flatten_help && (cfg.help_features || cfg.parse_features) && n_subs > 0 && rng.chance(1, 2) {
        c.set(CmdSetting::FlattenHelp);
    }
    if cfg.help_features {
        if sw.next_line && rng.chance(1, 3) {
            c.set(CmdSetting::NextLineHelp);
        }
        if rng.chance(1, 8) {
            c.set(CmdSetting::HidePossibleValues);
        }
        if rng.chance(2, 3) {
            c.about = Some(gen_text(rng, cfg.text, &format!("about{n:03}")));
        }
        if rng.chance(1, 4) {
            c.long_about = Some(gen_text(rng, cfg.text, &format!("labout{n:03}")));
        }
        if rng.chance(1, 5) {
            c.before_help = Some(gen_text(rng, cfg.text, &format!("before{n:03}")));
        }
        if rng.chance(1, 4) {
            c.after_help = Some(gen_text(rng, cfg.text, &format!("after{n:03}")));
        }
        if rng.chance(1, 6) {
            c.after_long_help = Some(gen_text(rng, cfg.text, &format!("lafter{n:03}")));
        }
        if rng.chance(1, 5) {
            c.author = Some(gen_text(rng, cfg.text, &format!("author{n:03}")));
        }
        if n_subs > 0 && rng.chance(1, 6) {
            c.subcommand_value_name = Some(format!("SUBV{n:03}"));
        }
        if n_subs > 0 && rng.chance(1, 6) {
            c.subcommand_help_heading = Some(format!("Subhead{n:03}"));
        }
        if cfg.allow_custom_template && rng.chance(1, 12) {
            c.help_template = Some((*rng.pick(&["{name} {version}\n{about}\n{usage-heading} {usage}\n{all-args}{after-help}", "{bin} - {about-with-newline}{usage}\n{options}\n{positionals}\n{subcommands}", "{before-help}{author-with-newline}{tab}{usage}\n\n{all-args}"])).to_string());
        }
        if rng.chance(1, 12) && !is_root {
            c.override_usage = Some(format!("custom usage{n:03} [ARGS]"));
        }
    }
    if !is_root {
        if sw.hidden && cfg.help_features && rng.chance(1, 5) {
            c.set(CmdSetting::Hide);
        }
        if sw.aliases {
            if rng.chance(1, 3) {
                let k = names.next_n();
                c.aliases.push(names.sub(rng, k, false));
            }
            if rng.chance(1, 3) {
                let k = names.next_n();
                c.visible_aliases.push(names.sub(rng, k, false));
            }
        }
        if sw.flag_subs && cfg.allow_flag_subs && !(multicall_root && level == 1) {
            if rng.chance(1, 2) {
                c.short_flag = names.short();
                if rng.chance(1, 4) {
                    if let Some(s) = names.short() {
                        c.short_flag_aliases.push(s);
                    }
                }
            }
            if rng.chance(1, 2) {
                let k = names.next_n();
                c.long_flag = Some(names.long(rng, k));
                if rng.chance(1, 4) {
                    let k = names.next_n();
                    c.long_flag_aliases.push(names.long(rng, k));
                }
                if rng.chance(1, 4) {
                    let k = names.next_n();
                    c.visible_long_flag_aliases.push(names.long(rng, k));
                }
            }
        }
        if cfg.parse_features && rng.chance(1, 10) {
            c.version = Some(format!("9.{}", rng.below(10)));
        }
    }
    if cfg.allow_defer && rng.chance(1, 12) && !no_args_here {
        c.defer = 1 + rng.below(2) as u8;
    }

    // ---- arguments
    if !no_args_here {
        gen_args(rng, cfg, sw, names, &mut c, n_subs > 0, inherited_globals);
    }

    // ---- subcommands
    let mut globals: Vec<String> = inherited_globals.to_vec();
    globals.extend(c.args.iter().filter(|a| a.global).map(|a| a.id.clone()));
    for _ in 0..n_subs {
        let mut s = gen_level(rng, cfg, sw, names, level + 1, max_depth, multicall_root, &globals);
        // sometimes a later sibling's name merely extends an earlier sibling's name (`remote`, `remote-add`)
        if let Some(prev) = c.subs.last() {
            if rng.chance(1, 6) && !prev.name.contains("__") {
                s.name = format!("{}{}", prev.name, rng.pick(&["-add", "2", "_x", "-all"]));
            }
        }
        c.subs.push(s);
    }
    // sibling subcommands may share a display order (listings must still name each of them)
    if cfg.help_features && c.subs.len() >= 2 && rng.chance(1, 5) {
        let o = rng.usize(3);
        let k = rng.urange(2, c.subs.len());
        for s in c.subs.iter_mut().take(k) {
            s.display_order = Some(o);
        }
    }
    c
}

fn gen_value_for(rng: &mut Rng, p: &ValParser) -> String {
    match p {
        ValParser::I64 { lo, hi } => rng.range(*lo, *hi).to_string(),
        ValParser::U16 => rng.below(65536).to_string(),
        ValParser::Int { w, range } => {
            let (lo, hi) = w.language(*range);
            if lo > hi {
                "0".to_string()
            } else {
                (*rng.pick(&[lo, hi, lo.max(0).min(hi)])).to_string()
            }
        }
        ValParser::Bool => (*rng.pick(&["true", "false"])).to_string(),
        ValParser::Boolish => (*rng.pick(&["yes", "no", "on", "off", "1", "0", "true", "false"])).to_string(),
        ValParser::Possible(pvs) => rng.pick(pvs).name.clone(),
        ValParser::Reject(_) => "okval".to_string(),
        ValParser::EnumVp => (*rng.pick(&["fast", "slow", "s", "hidden-one"])).to_string(),
        ValParser::Edge(k) => {
            let (_, lo, hi) = edge_language(*k);
            if lo > hi {
                "0".to_string()
            } else {
                (*rng.pick(&[lo, hi])).to_string()
            }
        }
        _ => (*rng.pick(&["v1", "v2", "val", "x", "foo.txt", "a,b"])).to_string(),
    }
}

fn gen_parser(rng: &mut Rng, cfg: &GenCfg, sw: &Swarm, n: usize) -> ValParser {
    if sw.reject_cb && rng.chance(1, 6) {
        return ValParser::Reject(vec!["bad".into(), "reject".into(), "-bad".into()]);
    }
    if !sw.typed {
        return ValParser::Str;
    }
    match rng.below(12) {
        0 | 1 => {
            let lo = *rng.pick(&[-5i64, 0, 1, -128, i64::MIN, -1]);
            let hi = *rng.pick(&[5i64, 10, 127, 255, i64::MAX, 65535]);
            ValParser::I64 { lo, hi }
        }
        2 => {
            if rng.chance(1, 6) {
                // bounds on the extremes of the 64-bit types, exclusive and empty ranges
                ValParser::Edge(rng.below(15) as u8)
            } else if rng.coin() {
                ValParser::U16
            } else {
                let w = *rng.pick(&[IntW::I8, IntW::I16, IntW::I32, IntW::U8, IntW::U32, IntW::U64]);
                let range = if rng.coin() {
                    None
                } else {
                    let lo = *rng.pick(&[-200i64, -129, -128, -1, 0, 1, 100]);
                    let hi = *rng.pick(&[100i64, 127, 128, 255, 256, 70000, i64::MAX]);
                    Some((lo, hi.max(lo)))
                };
                // a declared range must intersect the type (clap asserts that when the parser is built)
                let (a, b) = w.language(range);
                ValParser::Int { w, range: if a <= b { range } else { None } }
            }
        }
        3 => {
            if rng.chance(1, 3) {
                ValParser::EnumVp
            } else {
                ValParser::Bool
            }
        }
        4 => ValParser::Boolish,
        5 | 6 => {
            let k = rng.urange(1, 4);
            let mut pvs = Vec::new();
            for i in 0..k {
                let mut pv = PvSpec {
                    name: format!("{}{n:03}{}", if cfg.hostile_names && rng.chance(1, 5) { *rng.pick(&["\u{b5}m", "\u{7c73}", "k\u{3a9}"]) } else { *rng.pick(&["pv", "fast", "slow", "Auto", "pv-x", "pv_y"]) }, (b'a' + i as u8) as char),
                    ..Default::default()
                };
                if rng.chance(1, 4) {
                    pv.aliases.push(format!("pal{n:03}{}", (b'a' + i as u8) as char));
                    if rng.chance(1, 2) {
                        pv.aliases.push(format!("pbl{n:03}{}", (b'a' + i as u8) as char));
                        pv.aliases.push(format!("pcl{n:03}{}", (b'a' + i as u8) as char));
                    }
                }
                if cfg.help_features && ((rng.chance(1, 4) && k > 1 && i > 0) || rng.chance(1, 12)) {
                    pv.hide = true;
                }
                if cfg.help_features && rng.chance(1, 3) {
                    pv.help = Some(gen_text(rng, cfg.text, &format!("pvh{n:03}{}", (b'a' + i as u8) as char)));
                }
                pvs.push(pv);
            }
            ValParser::Possible(pvs)
        }
        7 => ValParser::Os,
        8 => ValParser::Path,
        _ => ValParser::Str,
    }
}

fn gen_args(rng: &mut Rng, cfg: &GenCfg, sw: &Swarm, names: &mut Names, c: &mut CmdSpec, has_subs: bool, inherited_globals: &[String]) {
    let n_total = rng.usize(cfg.max_args + 1);
    let n_pos = if sw.positionals { rng.usize(n_total.min(3) + 1) } else { 0 };
    let n_opt = n_total - n_pos;
    let headings: Vec<String> = if cfg.help_features && sw.headings {
        let n1 = names.next_n();
        let n2 = names.next_n();
        if rng.chance(1, 5) {
            // two headings that differ only in case
            vec![format!("Heading{n1:03}"), format!("HEADING{n1:03}"), format!("Other{n2:03}")]
        } else {
            vec![format!("Heading{n1:03}"), format!("Other{n2:03}")]
        }
    } else {
        vec![]
    };

    // ---- options and flags
    for _ in 0..n_opt {
        let n = names.next_n();
        let action = match rng.below(16) {
            0..=5 => Action::Set,
            6..=8 => Action::Append,
            9..=11 => Action::SetTrue,
            12 => Action::SetFalse,
            13 | 14 => Action::Count,
            _ => {
                if sw.actions_help {
                    *rng.pick(&[Action::Help, Action::HelpShort, Action::HelpLong, Action::Version])
                } else {
                    Action::SetTrue
                }
            }
        };
        let mut a = ArgSpec::new(&format!("a{n:03}"), action);
        if action == Action::Count && sw.typed && rng.chance(1, 3) {
            a.parser = ValParser::Int { w: IntW::U8, range: Some((0, *rng.pick(&[1i64, 2, 3, 5]))) };
        }
        if action == Action::Version && c.version.is_none() {
            // ArgAction::Version needs version information on this very command
            c.version = Some(format!("7.{}", rng.below(10)));
        }
        match rng.below(4) {
            0 => a.short = names.short(),
            1 => a.long = Some(names.long(rng, n)),
            _ => {
                a.short = names.short();
                a.long = Some(names.long(rng, n));
            }
        }
        if a.short.is_none() && a.long.is_none() {
            a.long = Some(names.long(rng, n));
        }
        if sw.aliases {
            if a.long.is_some() && rng.chance(1, 4) {
                let k = names.next_n();
                a.aliases.push(names.long(rng, k));
            }
            if a.long.is_some() && rng.chance(1, 4) {
                let k = names.next_n();
                a.visible_aliases.push(names.long(rng, k));
            }
            if rng.chance(1, 6) {
                if let Some(s) = names.short() {
                    a.short_aliases.push(s);
                }
            }
            if rng.chance(1, 6) {
                if let Some(s) = names.short() {
                    a.visible_short_aliases.push(s);
                }
            }
        }
        if action.takes_values() {
            a.parser = gen_parser(rng, cfg, sw, n);
            if sw.multi || sw.optional_values {
                a.num_args = match rng.below(12) {
                    0 if sw.optional_values => Some((0, Some(1))),
                    1 if sw.optional_values => Some((0, None)),
                    2 if sw.multi => Some((1, None)),
                    3 if sw.multi => Some((2, Some(2))),
                    4 if sw.multi => Some((1, Some(3))),
                    5 if sw.multi => Some((2, None)),
                    6 => Some((1, Some(1))),
                    _ => None,
                };
            }
            let (min, _max) = a.value_range();
            if min == 0 && rng.chance(2, 3) {
                a.default_missing = vec![gen_value_for(rng, &a.parser)];
            }
            if sw.require_equals && min <= 1 && rng.chance(1, 3) {
                a.require_equals = true;
            }
            if sw.delimiters && rng.chance(1, 3) {
                a.value_delimiter = Some(if cfg.hostile_names && rng.chance(1, 3) { *rng.pick(&['\u{3001}', '\u{b7}', '\u{a7}']) } else { *rng.pick(&[',', ':', ';']) });
            }
            if sw.terminators && a.is_multiple_values() && rng.chance(1, 2) {
                a.value_terminator = Some((*rng.pick(&[";", "end", "--"])).to_string());
            }
            if sw.hyphen_values && rng.chance(1, 3) {
                a.allow_hyphen_values = true;
            }
            if sw.hyphen_values && rng.chance(1, 4) {
                a.allow_negative_numbers = true;
            }
            if sw.defaults && rng.chance(1, 3) {
                let k = if a.is_multiple_values() { rng.urange(1, 2) } else { 1 };
                a.default_values = (0..k).map(|_| B::s(&gen_value_for(rng, &a.parser))).collect();
                // an OS-string / path default need not be UTF-8
                if matches!(a.parser, ValParser::Os | ValParser::Path) && rng.chance(1, 3) {
                    a.default_values[0] = B(b"caf\xe9.conf".to_vec());
                }
            }
            // ignore_case is about possible values; on the other parsers it must change nothing
            if matches!(a.parser, ValParser::Possible(_) | ValParser::EnumVp | ValParser::Bool | ValParser::Boolish | ValParser::Int { .. }) && rng.chance(1, 4) {
                a.ignore_case = true;
            }
            if cfg.help_features {
                if rng.chance(1, 2) {
                    let (_, max) = a.value_range();
                    let k = if max.map(|m| m >= 2).unwrap_or(true) && rng.chance(1, 3) { 2 } else { 1 };
                    a.value_names = (0..k).map(|i| format!("VAL{n:03}{}", if i == 0 { "" } else { "B" })).collect();
                }
                if rng.chance(1, 8) {
                    a.hide_default_value = true;
                }
                if rng.chance(1, 8) {
                    a.hide_possible_values = true;
                }
            }
            if cfg.value_hints && rng.chance(1, 3) {
                a.value_hint = Some(*rng.pick(&[Hint::AnyPath, Hint::FilePath, Hint::DirPath, Hint::ExecutablePath, Hint::CommandName, Hint::CommandString, Hint::Username, Hint::Hostname, Hint::Url, Hint::EmailAddress, Hint::Other]));
            }
        } else if matches!(action, Action::SetTrue | Action::SetFalse) && sw.optional_values && rng.chance(1, 6) {
            a.num_args = Some((0, Some(1)));
            if rng.chance(1, 2) {
                a.require_equals = true;
            }
        }
        if sw.globals && !matches!(action, Action::Help | Action::HelpShort | Action::HelpLong | Action::Version) && rng.chance(1, 4) {
            a.global = true;
        }
        if cfg.allow_env && a.action.takes_values() && rng.chance(1, 5) {
            // the variable is never set in a worker (the environment is scrubbed): only its name matters
            a.env = Some(format!("CLAPSIMENV_{n:03}"));
            if cfg.help_features {
                match rng.below(6) {
                    0 => a.hide_env = true,
                    1 => a.hide_env_values = true,
                    _ => {}
                }
            }
        }
        decorate_help(rng, cfg, sw, &mut a, n, &headings);
        c.args.push(a);
    }

    // ---- positionals
    if n_pos > 0 {
        gen_positionals(rng, cfg, sw, names, c, n_pos, has_subs, &headings);
    }

    // generators and help renderers see required options too (without the relation vocabulary)
    if !cfg.parse_features && !c.args.is_empty() && rng.chance(1, 3) {
        let i = rng.usize(c.args.len());
        let a = &mut c.args[i];
        if !a.global && !a.is_positional() && !matches!(a.action, Action::Help | Action::HelpShort | Action::HelpLong | Action::Version) {
            a.required = true;
        }
    }
    // ... and conflicts with several spellings on the other side (zsh prints them as an exclusion list)
    if !cfg.parse_features && c.args.len() >= 3 && rng.chance(1, 3) {
        let ids: Vec<String> = c.args.iter().filter(|a| !a.is_positional() && !a.global && !matches!(a.action, Action::Help | Action::HelpShort | Action::HelpLong | Action::Version)).map(|a| a.id.clone()).collect();
        if ids.len() >= 3 {
            let first = ids[0].clone();
            if let Some(a) = c.args.iter_mut().find(|a| a.id == first) {
                a.conflicts = ids[1..ids.len().min(4)].to_vec();
            }
        }
    }
    // ---- relations
    if cfg.parse_features && sw.relations && c.args.len() >= 2 {
        let ids: Vec<String> = c.args.iter().map(|a| a.id.clone()).collect();
        let n_rel = rng.usize(4);
        for _ in 0..n_rel {
            let i = rng.usize(ids.len());
            let j = rng.usize(ids.len());
            if i == j {
                continue;
            }
            let other = ids[j].clone();
            let other_takes = c.args[j].action.takes_values();
            let a = &mut c.args[i];
            if matches!(a.action, Action::Help | Action::HelpShort | Action::HelpLong | Action::Version) {
                continue;
            }
            match rng.below(8) {
                0 | 1 => a.conflicts.push(other),
                2 => a.requires.push(other),
                3 => a.overrides.push(other),
                4 => {
                    if !a.required && !a.global && a.required_if_eq.is_empty() {
                        a.required_unless.push(other)
                    }
                }
                5 => {
                    if !a.required && !a.global && other_takes {
                        a.required_if_eq.push((other, "v1".to_string()))
                    }
                }
                6 => {
                    if a.action.takes_values() {
                        a.requires_ifs.push(("v1".to_string(), other))
                    }
                }
                _ => {
                    if a.action.takes_values() && a.default_values.is_empty() {
                        let dv = gen_value_for(rng, &a.parser);
                        a.default_ifs.push((other, if other_takes && rng.coin() { Some("v1".into()) } else { None }, Some(dv)));
                    }
                }
            }
        }
        if rng.chance(1, 4) {
            let i = rng.usize(c.args.len());
            let a = &mut c.args[i];
            if !a.global && !a.is_positional() && a.required_unless.is_empty() && a.required_if_eq.is_empty() && !matches!(a.action, Action::Help | Action::HelpShort | Action::HelpLong | Action::Version) {
                a.required = true;
            }
        }
        if sw.exclusive && rng.chance(1, 3) {
            let i = rng.usize(c.args.len());
            if !c.args[i].required {
                c.args[i].exclusive = true;
            }
        }
    }
    // relations may reference inherited globals too (they exist at this level after propagation)
    if cfg.parse_features && sw.relations && !inherited_globals.is_empty() && !c.args.is_empty() && rng.chance(1, 6) {
        let i = rng.usize(c.args.len());
        let g = rng.pick(inherited_globals).clone();
        if c.args[i].id != g && !matches!(c.args[i].action, Action::Help | Action::HelpShort | Action::HelpLong | Action::Version) {
            if rng.coin() {
                c.args[i].conflicts.push(g);
            } else {
                c.args[i].requires.push(g);
            }
        }
    }

    // ---- groups
    if cfg.parse_features && sw.groups && c.args.len() >= 2 && rng.chance(1, 2) {
        let n_g = rng.urange(1, 2);
        for gi in 0..n_g {
            let n = names.next_n();
            let mut members: BTreeSet<String> = BTreeSet::new();
            for _ in 0..rng.urange(1, 3) {
                let a = rng.pick(&c.args);
                if !matches!(a.action, Action::Help | Action::HelpShort | Action::HelpLong | Action::Version) {
                    members.insert(a.id.clone());
                }
            }
            if members.is_empty() {
                continue;
            }
            let mut g = GroupSpec {
                id: format!("g{n:03}"),
                args: members.into_iter().collect(),
                required: rng.chance(1, 4),
                multiple: rng.chance(1, 3),
                requires: vec![],
                conflicts: vec![],
            };
            if rng.chance(1, 4) {
                let o = rng.pick(&c.args).id.clone();
                if !g.args.contains(&o) {
                    if rng.coin() {
                        g.requires.push(o);
                    } else {
                        g.conflicts.push(o);
                    }
                }
            }
            if gi == 0 && rng.chance(1, 4) {
                // an argument conflicting with / requiring the group
                let i = rng.usize(c.args.len());
                if !g.args.contains(&c.args[i].id) && !matches!(c.args[i].action, Action::Help | Action::HelpShort | Action::HelpLong | Action::Version) {
                    if rng.coin() {
                        c.args[i].conflicts.push(g.id.clone());
                    } else {
                        c.args[i].requires.push(g.id.clone());
                    }
                }
            }
            c.groups.push(g);
        }
    }
}

fn decorate_help(rng: &mut Rng, cfg: &GenCfg, sw: &Swarm, a: &mut ArgSpec, n: usize, headings: &[String]) {
    if !cfg.help_features {
        return;
    }
    if rng.chance(3, 4) {
        a.help = Some(gen_text(rng, cfg.text, &format!("hlp{n:03}")));
    }
    if rng.chance(1, 5) {
        a.long_help = Some(gen_text(rng, cfg.text, &format!("lhlp{n:03}")));
    }
    if !headings.is_empty() && rng.chance(1, 2) {
        a.help_heading = Some(rng.pick(headings).clone());
    }
    if sw.hidden {
        match rng.below(12) {
            0 | 1 => a.hide = true,
            2 => a.hide_short_help = true,
            3 => a.hide_long_help = true,
            // hidden from both help modes one by one, but not `hide`: still part of usage, man pages and scripts
            4 => {
                a.hide_short_help = true;
                a.hide_long_help = true;
            }
            _ => {}
        }
    }
    if sw.next_line && rng.chance(1, 6) {
        a.next_line_help = true;
    }
    if rng.chance(1, 10) {
        a.display_order = Some(rng.usize(5));
    }
}

#[allow(clippy::too_many_arguments)]
fn gen_positionals(rng: &mut Rng, cfg: &GenCfg, sw: &Swarm, names: &mut Names, c: &mut CmdSpec, n_pos: usize, has_subs: bool, headings: &[String]) {
    // Shapes valid for `_verify_positionals`:
    //   all single, required prefix then optional            (default)
    //   last multi (optionally trailing_var_arg or last(true))
    //   second-to-last multi with terminator, last single    (rare)
    let amp = cfg.parse_features && sw.missing_positional && n_pos >= 2 && rng.chance(1, 2);
    if amp {
        c.set(CmdSetting::AllowMissingPositional);
    }
    let multi_last = sw.multi && rng.chance(1, 2);
    let second_multi = sw.multi && sw.terminators && n_pos >= 2 && !multi_last && rng.chance(1, 4);
    let last_true = sw.last_pos && rng.chance(1, 2) && !second_multi;
    let n_required = if amp { 0 } else { rng.usize(n_pos + 1) };
    for i in 0..n_pos {
        let n = names.next_n();
        let mut a = ArgSpec::new(&format!("p{n:03}"), if rng.chance(1, 8) { Action::Append } else { Action::Set });
        if rng.chance(1, 2) {
            a.index = Some(i + 1);
        }
        a.parser = gen_parser(rng, cfg, sw, n);
        let is_last = i + 1 == n_pos;
        if is_last && multi_last {
            a.num_args = Some(*rng.pick(&[(1, None), (0, None), (1, Some(3)), (2, None), (2, Some(2))]));
            if sw.trailing && !last_true && rng.chance(1, 2) && a.is_multiple_values() {
                a.trailing_var_arg = true;
            }
            if sw.terminators && rng.chance(1, 4) {
                a.value_terminator = Some(";".into());
            }
        }
        if second_multi && i + 2 == n_pos {
            a.num_args = Some((1, None));
            a.value_terminator = Some(";".into());
        }
        if is_last && last_true {
            a.last = true;
        }
        if amp {
            // [opt.., req] only: the final one required
            a.required = is_last && !a.last;
        } else {
            a.required = i < n_required;
            if a.last && a.required && has_subs && !c.has(CmdSetting::SubcommandNegatesReqs) {
                a.required = false;
            }
        }
        if second_multi && is_last {
            a.required = true;
        }
        if sw.hyphen_values && rng.chance(1, 3) {
            a.allow_hyphen_values = true;
        }
        if sw.hyphen_values && rng.chance(1, 5) {
            a.allow_negative_numbers = true;
        }
        if sw.delimiters && rng.chance(1, 5) {
            a.value_delimiter = Some(if cfg.hostile_names && rng.chance(1, 3) { '\u{3001}' } else { ',' });
        }
        if sw.defaults && !a.required && rng.chance(1, 4) {
            a.default_values = vec![B::s(&gen_value_for(rng, &a.parser))];
        }
        if cfg.help_features && rng.chance(1, 2) {
            a.value_names = vec![format!("POS{n:03}")];
        }
        if cfg.value_hints && rng.chance(1, 3) {
            a.value_hint = Some(*rng.pick(&[Hint::AnyPath, Hint::FilePath, Hint::DirPath, Hint::CommandName, Hint::Hostname, Hint::Other]));
            if is_last && a.is_multiple_values() && (a.trailing_var_arg || a.last) && rng.chance(1, 3) {
                a.value_hint = Some(Hint::CommandWithArguments);
            }
        }
        decorate_help(rng, cfg, sw, &mut a, n, headings);
        c.args.push(a);
    }
    // required positionals must form a prefix once a required one exists (without allow_missing_positional):
    // guaranteed by n_required; `last` positionals are exempt.
}

// ------------------------------------------------------------------------------------------
// argv generation

fn junk_token(rng: &mut Rng) -> B {
    const J: &[&[u8]] = &[b"--nope", b"-#", b"--", b"-", b"", b"zzz", b"--=", b"-=", b"---x", b"\xff\xfe", b"--\xff", b"-\xc3", b"-1", b"-1.5", b"--opt", b"help", b"=", b"--help", b"-h", b"-V", b"--version", b"v1", b";", b"end"];
    B(rng.pick(J).to_vec())
}

pub fn value_token(rng: &mut Rng, a: &ArgSpec) -> String {
    match &a.parser {
        ValParser::I64 { lo, hi } => match rng.below(10) {
            0 => lo.to_string(),
            1 => hi.to_string(),
            2 => (*lo as i128 - 1).to_string(),
            3 => (*hi as i128 + 1).to_string(),
            4 => "abc".into(),
            5 => "+3".into(),
            6 => "007".into(),
            7 => "".into(),
            _ => rng.range((*lo).max(-1000), (*hi).min(1000)).to_string(),
        },
        ValParser::U16 => (*rng.pick(&["0", "65535", "65536", "-1", "12", "x", "1e3"])).to_string(),
        ValParser::Int { w, range } => {
            let (lo, hi) = w.language(*range);
            match rng.below(8) {
                0 => (lo - 1).to_string(),
                1 => (hi + 1).to_string(),
                2 => "x".into(),
                3 => lo.to_string(),
                4 => hi.to_string(),
                _ => lo.max(-3).min(hi).to_string(),
            }
        }
        ValParser::Bool => (*rng.pick(&["true", "false", "TRUE", "1", "yes", ""])).to_string(),
        ValParser::Boolish => (*rng.pick(&["yes", "no", "on", "off", "1", "0", "true", "false", "maybe", "Y"])).to_string(),
        ValParser::Possible(pvs) => {
            let pv = rng.pick(pvs);
            match rng.below(6) {
                0 => pv.name.to_uppercase(),
                1 if !pv.aliases.is_empty() => pv.aliases[0].clone(),
                2 => "nope".into(),
                3 => pv.name[..pv.name.len() - 1].to_string(),
                _ => pv.name.clone(),
            }
        }
        ValParser::Reject(bad) => {
            if rng.chance(1, 3) {
                rng.pick(bad).clone()
            } else {
                "fine".into()
            }
        }
        _ => (*rng.pick(&["v1", "v2", "val", "x", "a,b", "a:b", "-dash", "--ddash", "", "k=v", "1", "-1", "sub", ";", "end"])).to_string(),
    }
}

fn prefix_of(rng: &mut Rng, s: &str) -> String {
    let chars: Vec<char> = s.chars().collect();
    if chars.len() <= 1 {
        return s.to_string();
    }
    let k = rng.urange(1, chars.len() - 1);
    chars[..k].iter().collect()
}

/// Assemble an argv (without argv[0]) that walks down the tree, mixing real spellings,
/// values, faults (unknown tokens, missing values, bad values) and requests for help/version.
pub fn gen_argv(rng: &mut Rng, root: &CmdSpec, max_tokens: usize) -> Vec<B> {
    let mut out: Vec<B> = Vec::new();
    let mut level = root;
    let mut globals: Vec<&ArgSpec> = Vec::new();
    let fault_rate = *rng.pick(&[0u64, 0, 5, 15, 40]);
    loop {
        let args: Vec<&ArgSpec> = level.args.iter().chain(globals.iter().copied()).collect();
        let n_here = rng.usize(5);
        for _ in 0..n_here {
            if out.len() >= max_tokens {
                return out;
            }
            if rng.below(100) < fault_rate {
                // half of the faults are near-misses of a real long flag of this level or of a subcommand
                // (what the suggestion machinery reacts to)
                let mut longs: Vec<&String> = level.args.iter().filter_map(|a| a.long.as_ref()).collect();
                for s in &level.subs {
                    longs.extend(s.args.iter().filter_map(|a| a.long.as_ref()));
                    for s2 in &s.subs {
                        longs.extend(s2.args.iter().filter_map(|a| a.long.as_ref()));
                    }
                }
                // ... or of a subcommand's name / long flag, typed as a bare word
                let mut words: Vec<&String> = level.subs.iter().map(|s| &s.name).collect();
                words.extend(level.subs.iter().filter_map(|s| s.long_flag.as_ref()));
                words.extend(level.subs.iter().flat_map(|s| s.long_flag_aliases.iter().chain(s.visible_long_flag_aliases.iter())));
                if rng.chance(1, 4) && !words.is_empty() {
                    let mut m: Vec<char> = rng.pick(&words).chars().collect();
                    if m.len() >= 3 {
                        let k = rng.urange(1, m.len() - 2);
                        match rng.below(3) {
                            0 => {
                                m.remove(k);
                            }
                            1 => m.swap(k, k + 1),
                            _ => m.insert(k, 'x'),
                        }
                    }
                    out.push(B::s(&m.into_iter().collect::<String>()));
                    continue;
                }
                if rng.coin() && !longs.is_empty() {
                    let l: Vec<char> = rng.pick(&longs).chars().collect();
                    let mut m = l.clone();
                    if m.len() >= 3 {
                        let k = rng.urange(1, m.len() - 2);
                        match rng.below(3) {
                            0 => {
                                m.remove(k);
                            }
                            1 => m.swap(k, k + 1),
                            _ => m.insert(k, 'x'),
                        }
                    }
                    out.push(B::s(&format!("--{}", m.into_iter().collect::<String>())));
                } else {
                    out.push(junk_token(rng));
                }
                continue;
            }
            let Some(a) = rng.pick_opt(&args).copied() else {
                if rng.chance(1, 3) {
                    out.push(junk_token(rng));
                }
                continue;
            };
            if a.is_positional() {
                let k = if a.is_multiple_values() { rng.urange(1, 3) } else { 1 };
                if a.last && rng.chance(2, 3) {
                    out.push(B::s("--"));
                }
                for _ in 0..k {
                    out.push(B::s(&value_token(rng, a)));
                }
                continue;
            }
            let (min, max) = a.value_range();
            let takes = a.takes_values();
            let n_vals = if !takes {
                0
            } else {
                let hi = max.unwrap_or(min + 2).min(min + 2);
                match rng.below(8) {
                    0 if min > 0 => min - 1,
                    1 => hi + 1,
                    _ => rng.urange(min, hi.max(min)),
                }
            };
            let mut spellings: Vec<String> = Vec::new();
            if let Some(l) = &a.long {
                spellings.push(format!("--{l}"));
                for al in a.aliases.iter().chain(a.visible_aliases.iter()) {
                    spellings.push(format!("--{al}"));
                }
                if rng.chance(1, 4) {
                    spellings.push(format!("--{}", prefix_of(rng, l)));
                }
            }
            if let Some(s) = a.short {
                spellings.push(format!("-{s}"));
                for al in a.short_aliases.iter().chain(a.visible_short_aliases.iter()) {
                    spellings.push(format!("-{al}"));
                }
            }
            let sp = rng.pick(&spellings).clone();
            let is_long = sp.starts_with("--");
            let mut vals: Vec<String> = (0..n_vals).map(|_| value_token(rng, a)).collect();
            if let (Some(d), true) = (a.value_delimiter, vals.len() >= 2 && rng.coin()) {
                vals = vec![vals.join(&d.to_string())];
            }
            if !takes {
                // flags: maybe cluster with other value-less shorts
                if !is_long && rng.chance(1, 3) {
                    let mut cl = sp.clone();
                    for _ in 0..rng.urange(1, 3) {
                        if let Some(o) = rng.pick_opt(&args) {
                            if let (Some(s), false) = (o.short, o.takes_values()) {
                                cl.push(s);
                            }
                        }
                    }
                    // sometimes end the cluster with a value-taking short and its attached value
                    if rng.chance(1, 3) {
                        if let Some(o) = args.iter().find(|o| o.short.is_some() && o.takes_values()) {
                            cl.push(o.short.unwrap());
                            if rng.coin() {
                                cl.push_str(&value_token(rng, o));
                            } else {
                                out.push(B::s(&cl));
                                out.push(B::s(&value_token(rng, o)));
                                continue;
                            }
                        }
                    }
                    out.push(B::s(&cl));
                } else {
                    out.push(B::s(&sp));
                }
                continue;
            }
            if vals.is_empty() {
                out.push(B::s(&sp));
                continue;
            }
            match rng.below(4) {
                0 => {
                    // attached
                    let first = vals.remove(0);
                    if is_long {
                        out.push(B::s(&format!("{sp}={first}")));
                    } else if rng.coin() {
                        out.push(B::s(&format!("{sp}{first}")));
                    } else {
                        out.push(B::s(&format!("{sp}={first}")));
                    }
                }
                _ => {
                    if a.require_equals && rng.chance(3, 4) {
                        let first = vals.remove(0);
                        out.push(B::s(&format!("{sp}={first}")));
                    } else {
                        out.push(B::s(&sp));
                    }
                }
            }
            for v in vals {
                out.push(B::s(&v));
            }
            if let Some(t) = &a.value_terminator {
                if rng.chance(1, 2) {
                    out.push(B::s(t));
                }
            }
        }
        // help / version / escape / descend
        match rng.below(24) {
            0 => out.push(B::s("--help")),
            1 => out.push(B::s("-h")),
            2 => out.push(B::s("--version")),
            3 => out.push(B::s("-V")),
            4 => {
                out.push(B::s("help"));
                if let Some(s) = rng.pick_opt(&level.subs) {
                    out.push(B::s(&s.name));
                }
            }
            5 => {
                out.push(B::s("--"));
                for _ in 0..rng.usize(3) {
                    out.push(junk_token(rng));
                }
            }
            _ => {}
        }
        if level.subs.is_empty() || rng.chance(1, 4) || out.len() >= max_tokens {
            if level.has(CmdSetting::AllowExternalSubcommands) && rng.chance(1, 3) {
                out.push(B::s("extcmd"));
                for _ in 0..rng.usize(3) {
                    if rng.chance(1, 3) {
                        out.push(B::s(*rng.pick(&["bad", "reject", "fine"])));
                    } else {
                        out.push(junk_token(rng));
                    }
                }
            }
            break;
        }
        let sub = rng.pick(&level.subs);
        let mut spell: Vec<String> = sub.all_names();
        if let Some(f) = sub.short_flag {
            spell.push(format!("-{f}"));
            // cluster with the subcommand's own value-less shorts (`-Syu`)
            let own: String = sub.args.iter().filter(|a| !a.takes_values()).filter_map(|a| a.short).take(2).collect();
            if !own.is_empty() {
                spell.push(format!("-{f}{own}"));
            }
        }
        for f in &sub.short_flag_aliases {
            spell.push(format!("-{f}"));
        }
        if let Some(f) = &sub.long_flag {
            spell.push(format!("--{f}"));
        }
        for f in sub.long_flag_aliases.iter().chain(sub.visible_long_flag_aliases.iter()) {
            spell.push(format!("--{f}"));
        }
        if rng.chance(1, 5) {
            spell.push(prefix_of(rng, &sub.name));
        }
        out.push(B::s(rng.pick(&spell).as_str()));
        for a in level.args.iter().filter(|a| a.global) {
            globals.push(a);
        }
        level = sub;
    }
    if rng.chance(1, 12) && !out.is_empty() {
        let i = rng.usize(out.len());
        out[i] = junk_token(rng);
    }
    if rng.chance(1, 20) && out.len() >= 2 {
        let i = rng.usize(out.len());
        out.remove(i);
    }
    out.truncate(max_tokens);
    out
}
