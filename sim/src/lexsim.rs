//! lexsim — histories on clap_lex's RawArgs/ArgCursor (C14) and ParsedArg/ShortFlags (C13),
//! checked in lock-step against byte-level reference models.

use crate::bytes::{esc, B};
use crate::core::*;
use crate::ev;
use crate::rng::Rng;
use clap_lex::{OsStrExt as _, RawArgs, SeekFrom};
use serde::{Deserialize, Serialize};
use std::cell::Cell;
use std::ffi::OsStr;
use std::os::unix::ffi::OsStrExt as _;

// ------------------------------------------------------------------------------------------
// Workload alphabet

const PIECES: &[&[u8]] = &[
    b"-", b"-", b"=", b"0", b"1", b"9", b".", b"e", b"E", b"a", b"b", b"c", b"x", b",", b" ",
    "é".as_bytes(),
    "€".as_bytes(),
    "😀".as_bytes(),
    "\u{301}".as_bytes(), // combining acute (zero width)
    "\u{fffd}".as_bytes(), // a literal, validly encoded replacement character
    &[0x11],              // control bytes that differ from a digit / `.` in bit 0x20 only
    &[0x0e],
    &[0x80],              // lone continuation byte
    &[0xE2, 0x82],        // truncated 3-byte sequence
    &[0xFF],
    &[0xC3],              // truncated 2-byte sequence
    &[0xF0, 0x9F, 0x98],  // truncated 4-byte sequence
    &[0xED, 0xA0, 0x80],  // encoded surrogate (invalid UTF-8)
];

pub fn gen_token(rng: &mut Rng) -> B {
    let mut v = Vec::new();
    match rng.below(10) {
        0 => return B(v),
        1 | 2 | 3 => v.extend_from_slice(b"-"),
        4 | 5 => v.extend_from_slice(b"--"),
        _ => {}
    }
    let n = rng.below(8);
    for _ in 0..n {
        v.extend_from_slice(*rng.pick(PIECES));
    }
    if v.len() > 14 {
        // cut on an arbitrary byte: may itself create a truncated sequence
        v.truncate(14);
    }
    B(v)
}

fn gen_needle(rng: &mut Rng, hay: &[u8]) -> String {
    // U+FFFD is what a lossy conversion puts in place of invalid bytes: a needle holding it must not be
    // "found" there
    const FIXED: &[&str] = &["=", "-", "--", "a", "ab", "é", "€", ",", "==", "a=", "😀", ".", "\u{301}", "e", "1", "-=", "=-", "\u{fffd}", "\u{fffd}", "a\u{fffd}", "\u{fffd}=", "-\u{fffd}"];
    if rng.chance(1, 2) && !hay.is_empty() {
        // a UTF-8 substring of the haystack when there is one
        for _ in 0..4 {
            let a = rng.usize(hay.len());
            let b = rng.urange(a + 1, hay.len().min(a + 5));
            if let Ok(s) = std::str::from_utf8(&hay[a..b]) {
                if !s.is_empty() {
                    return s.to_string();
                }
            }
        }
    }
    rng.pick(FIXED).to_string()
}

// ------------------------------------------------------------------------------------------
// Scenario data

#[derive(Clone, Debug, Hash, Serialize, Deserialize, PartialEq)]
pub enum Seek {
    Start(u64),
    Current(i64),
    End(i64),
}

#[derive(Clone, Debug, Hash, Serialize, Deserialize, PartialEq)]
pub enum CurOp {
    Next(u8),
    NextOs(u8),
    Peek(u8),
    PeekOs(u8),
    Remaining(u8),
    IsEnd(u8),
    Seek(u8, Seek),
    Insert(u8, Vec<B>),
    /// fault: the caller's iterator delivers `items[..fail_at]`, then panics (caught by the caller);
    /// the last field selects what `size_hint` claims
    InsertFailing(u8, Vec<B>, u8, u8),
    CloneCursor(u8, u8),
    Cmp(u8, u8),
    Helper(HelperOp),
}

#[derive(Clone, Debug, Hash, Serialize, Deserialize, PartialEq)]
pub struct HelperOp {
    pub which: u8, // 0 find 1 contains 2 starts_with 3 strip_prefix 4 split 5 split_once 6 try_str
    pub hay: B,
    pub needle: String,
}

#[derive(Clone, Debug, Hash, Serialize, Deserialize, PartialEq)]
pub enum ShortOp {
    NextFlag(u8),
    NextValue(u8),
    AdvanceBy(u8, u8),
    IsEmpty(u8),
    IsNeg(u8),
    IterNext(u8),
    Fork(u8),
}

#[derive(Clone, Debug, Hash, Serialize, Deserialize, PartialEq)]
pub struct TokenProbe {
    pub item: u8,
    pub via_next: bool,
    pub short_ops: Vec<ShortOp>,
}

#[derive(Clone, Debug, Hash, Serialize, Deserialize, PartialEq)]
pub struct LexSc {
    pub items: Vec<B>,
    /// C14: cursor / helper history
    pub ops: Vec<CurOp>,
    /// C13: token probes with short-flag iterator histories
    pub probes: Vec<TokenProbe>,
}

// ------------------------------------------------------------------------------------------
// Reference models

fn m_find(h: &[u8], n: &[u8]) -> Option<usize> {
    if n.len() > h.len() {
        return None;
    }
    let mut i = 0;
    while i + n.len() <= h.len() {
        if &h[i..i + n.len()] == n {
            return Some(i);
        }
        i += 1;
    }
    None
}

fn m_split(h: &[u8], n: &[u8]) -> Vec<Vec<u8>> {
    let mut out = Vec::new();
    let mut rest = h;
    loop {
        match m_find(rest, n) {
            Some(i) => {
                out.push(rest[..i].to_vec());
                rest = &rest[i + n.len()..];
            }
            None => {
                out.push(rest.to_vec());
                return out;
            }
        }
    }
}

/// `^[0-9]+(\.[0-9]*)?([eE][0-9]+)?$` with one refinement taken from the documented rule:
/// digits may continue after the dot; exactly one dot, before the exponent; exponent not last.
fn m_is_number(s: &[u8]) -> bool {
    let mut i = 0;
    let n = s.len();
    let digits = |i: &mut usize| {
        let st = *i;
        while *i < n && s[*i].is_ascii_digit() {
            *i += 1;
        }
        *i - st
    };
    if digits(&mut i) == 0 {
        return false;
    }
    if i < n && s[i] == b'.' {
        i += 1;
        digits(&mut i);
    }
    if i < n && (s[i] == b'e' || s[i] == b'E') {
        i += 1;
        if digits(&mut i) == 0 {
            return false;
        }
    }
    i == n
}

fn valid_up_to(b: &[u8]) -> usize {
    match std::str::from_utf8(b) {
        Ok(_) => b.len(),
        Err(e) => e.valid_up_to(),
    }
}

#[derive(Clone)]
struct MShort {
    r: Vec<u8>,
    vlen: usize,
    pos: usize,
    suffix: bool,
    fresh: bool,
}

impl MShort {
    fn new(r: &[u8]) -> MShort {
        let vlen = valid_up_to(r);
        MShort {
            r: r.to_vec(),
            vlen,
            pos: 0,
            suffix: vlen < r.len(),
            fresh: true,
        }
    }
    fn next_flag(&mut self) -> Option<Result<char, Vec<u8>>> {
        self.fresh = false;
        if self.pos < self.vlen {
            let s = std::str::from_utf8(&self.r[self.pos..self.vlen]).unwrap();
            let c = s.chars().next().unwrap();
            self.pos += c.len_utf8();
            return Some(Ok(c));
        }
        if self.suffix {
            self.suffix = false;
            return Some(Err(self.r[self.vlen..].to_vec()));
        }
        None
    }
    fn next_value(&mut self) -> Option<Vec<u8>> {
        self.fresh = false;
        if self.pos < self.vlen {
            let out = self.r[self.pos..].to_vec();
            self.pos = self.vlen;
            self.suffix = false;
            return Some(out);
        }
        if self.suffix {
            self.suffix = false;
            return Some(self.r[self.vlen..].to_vec());
        }
        None
    }
    fn advance_by(&mut self, n: usize) -> Result<(), usize> {
        for i in 0..n {
            match self.next_flag() {
                Some(Ok(_)) => {}
                _ => return Err(i),
            }
        }
        Ok(())
    }
    fn is_empty(&self) -> bool {
        !self.suffix && self.pos >= self.vlen
    }
}

// ------------------------------------------------------------------------------------------
// Engine

#[derive(Clone, Copy, PartialEq)]
pub enum Mode {
    C13,
    C14,
}

pub struct LexSim(pub Mode);

fn clamp_pos(x: i128, len: usize) -> usize {
    if x < 0 {
        0
    } else if x > len as i128 {
        len
    } else {
        x as usize
    }
}

const OFFS: &[i64] = &[0, 1, -1, 2, -2, 3, -3, i64::MIN, i64::MAX, i64::MIN + 1, i64::MAX - 1];

fn gen_seek(rng: &mut Rng, len: usize) -> Seek {
    let l = len as i64;
    let off = match rng.below(6) {
        0 => *rng.pick(OFFS),
        1 => *rng.pick(&[l, -l, l + 1, -(l + 1), l - 1, -(l - 1)]),
        2 => rng.next_u64() as i64,
        _ => rng.range(-(l + 2), l + 2),
    };
    match rng.below(3) {
        0 => {
            let p = match rng.below(5) {
                0 => u64::MAX,
                1 => (i64::MAX as u64) + 1,
                2 => rng.next_u64(),
                _ => rng.below(len as u64 + 3),
            };
            Seek::Start(p)
        }
        1 => Seek::Current(off),
        _ => Seek::End(off),
    }
}

impl Engine for LexSim {
    type Sc = LexSc;

    fn prop(&self) -> &'static str {
        match self.0 {
            Mode::C13 => "C13",
            Mode::C14 => "C14",
        }
    }

    fn meta(&self) -> Meta {
        match self.0 {
            Mode::C14 => Meta {
                engine: "lexsim",
                level: "exploration",
                rule: "a scenario is an argument list (1-6 byte strings over a boundary alphabet incl. invalid UTF-8) plus a seeded history of <= 40 operations (next/next_os/peek/peek_os/remaining/is_end/seek with clamping and overflowing offsets/insert/cursor clone/cursor comparison/OsStrExt helper calls) over three live cursors; the real RawArgs/ArgCursor run in lock-step with a Vec<Vec<u8>> + clamped-index model and every result and every cursor position is compared after every operation. Non-trivial = history of >= 2 operations with >= 1 comparison; distinct = distinct scenario hash (items + operations)",
                real_components: &["clap_lex::RawArgs", "clap_lex::ArgCursor", "clap_lex::OsStrExt (find, contains, starts_with, strip_prefix, split, split_once, try_str)"],
                stub_components: &["reference model: Vec<Vec<u8>> + usize per cursor; naive byte-window search"],
                workload_only_clauses: &["helper results for a single (haystack, needle) pair have no history in them; they ride along inside the cursor histories"],
                assumptions: &["Unix OsStr encoding (as_encoded_bytes == raw bytes)", "std::str::from_utf8 is trusted for the model's UTF-8 boundary"],
                abort_is_violation: true,
            },
            Mode::C13 => Meta {
                engine: "lexsim",
                level: "exploration",
                rule: "a scenario is an argument list plus token probes; each probe reaches a token through the cursor (next or peek), checks every classification against a byte model (mutual exclusivity, long re-assembly) and then drives a seeded history of <= 24 ShortFlags calls (next_flag/next_value_os/advance_by/is_empty/is_negative_number/Iterator::next/clone-and-diverge over up to 4 live iterators) in lock-step with a byte-offset model. Non-trivial = a probe with >= 2 iterator calls or >= 2 probes; distinct = distinct scenario hash",
                real_components: &["clap_lex::ParsedArg", "clap_lex::ShortFlags", "clap_lex::RawArgs (to reach tokens)"],
                stub_components: &["reference model: byte offset + first-invalid-byte position; independent number-shape recogniser"],
                workload_only_clauses: &["mutual consistency of the classifications and long re-assembly are functions of one token (exercised for every probed token, but there is no history in them)", "the 'exhaustively up to a length bound' reading of the quantifier is enumeration and is not attempted"],
                assumptions: &["Unix OsStr encoding", "std::str::from_utf8 is trusted for the model's UTF-8 boundary", "is_negative_number on an advanced iterator is compared with the number shape of the unread part (the behaviour of the unchanged tree; the documentation only says 'ideally call this before doing any iterator')"],
                abort_is_violation: true,
            },
        }
    }

    fn runs(&self, tier: Tier) -> u64 {
        match tier {
            Tier::Quick => 8_000_000,
            Tier::Thorough => 100_000_000,
        }
    }

    fn heartbeat(&self) -> u64 {
        4096
    }

    fn gen(&self, rng: &mut Rng, _tier: Tier) -> LexSc {
        let n_items = match rng.below(12) {
            0 => 0,
            1 | 2 => 1,
            _ => rng.urange(1, 6),
        };
        let items: Vec<B> = (0..n_items).map(|_| gen_token(rng)).collect();
        let mut ops = Vec::new();
        let mut probes = Vec::new();
        match self.0 {
            Mode::C14 => {
                let n_ops = if rng.chance(1, 4) { rng.urange(1, 6) } else { rng.urange(2, 40) };
                let mut len = items.len();
                // swarm: per-run op weights
                let mut w = [6u32, 6, 3, 3, 3, 2, 6, 3, 2, 1, 3];
                for x in w.iter_mut() {
                    if rng.chance(1, 4) {
                        *x = 0;
                    } else if rng.chance(1, 4) {
                        *x *= 4;
                    }
                }
                if w.iter().all(|x| *x == 0) {
                    w[0] = 1;
                }
                for _ in 0..n_ops {
                    let c = rng.below(3) as u8;
                    let op = match rng.weighted(&w) {
                        0 => CurOp::Next(c),
                        1 => CurOp::NextOs(c),
                        2 => CurOp::Peek(c),
                        3 => CurOp::PeekOs(c),
                        4 => CurOp::Remaining(c),
                        5 => CurOp::IsEnd(c),
                        6 => CurOp::Seek(c, gen_seek(rng, len)),
                        7 => {
                            let k = rng.below(4) as usize;
                            len += k;
                            if rng.chance(1, 5) {
                                let k = k.max(1);
                                CurOp::InsertFailing(c, (0..k).map(|_| gen_token(rng)).collect(), rng.below(k as u64) as u8, rng.below(4) as u8)
                            } else {
                                CurOp::Insert(c, (0..k).map(|_| gen_token(rng)).collect())
                            }
                        }
                        8 => CurOp::CloneCursor(c, rng.below(3) as u8),
                        9 => CurOp::Cmp(c, rng.below(3) as u8),
                        _ => {
                            let hay = if rng.chance(1, 2) && !items.is_empty() {
                                rng.pick(&items).clone()
                            } else {
                                gen_token(rng)
                            };
                            let needle = gen_needle(rng, &hay.0);
                            CurOp::Helper(HelperOp {
                                which: rng.below(7) as u8,
                                hay,
                                needle,
                            })
                        }
                    };
                    ops.push(op);
                }
            }
            Mode::C13 => {
                let n_probes = rng.urange(1, 4);
                for _ in 0..n_probes {
                    let item = rng.below(items.len().max(1) as u64) as u8;
                    let n = if rng.chance(1, 5) { 0 } else { rng.urange(1, 24) };
                    let mut w = [8u32, 4, 3, 3, 2, 4, 3];
                    for x in w.iter_mut() {
                        if rng.chance(1, 4) {
                            *x = 0;
                        }
                    }
                    if w.iter().all(|x| *x == 0) {
                        w[0] = 1;
                    }
                    let mut short_ops = Vec::new();
                    for _ in 0..n {
                        let it = rng.below(4) as u8;
                        short_ops.push(match rng.weighted(&w) {
                            0 => ShortOp::NextFlag(it),
                            1 => ShortOp::NextValue(it),
                            2 => ShortOp::AdvanceBy(it, rng.below(5) as u8),
                            3 => ShortOp::IsEmpty(it),
                            4 => ShortOp::IsNeg(it),
                            5 => ShortOp::IterNext(it),
                            _ => ShortOp::Fork(it),
                        });
                    }
                    probes.push(TokenProbe {
                        item,
                        via_next: rng.coin(),
                        short_ops,
                    });
                }
            }
        }
        LexSc { items, ops, probes }
    }

    fn exec(&self, sc: &LexSc, log: &mut Log) -> Outcome {
        let mut out = Outcome::default();
        let cur_op: Cell<&'static str> = Cell::new("init");
        let res = {
            let out_ref = &mut out;
            let cur = &cur_op;
            let mode = self.0;
            catch(move || match mode {
                Mode::C14 => exec_c14(sc, log, out_ref, cur),
                Mode::C13 => exec_c13(sc, log, out_ref, cur),
            })
        };
        if let Err(p) = res {
            if panic_in_harness(&p) {
                out.violate("HARNESS-PANIC", short_file(&p), format!("{} at {}", p.msg, p.loc));
            } else {
                out.violate(
                    "panic",
                    format!("{}@{}", cur_op.get(), short_file(&p)),
                    format!("operation `{}` panicked: {} at {}", cur_op.get(), p.msg, p.loc),
                );
            }
        }
        out
    }

    fn shrink(&self, sc: &LexSc) -> Vec<LexSc> {
        let mut c = Vec::new();
        // drop halves / single ops
        let n = sc.ops.len();
        if n > 1 {
            let mut s = sc.clone();
            s.ops.truncate(n / 2);
            c.push(s);
            let mut s = sc.clone();
            s.ops.drain(..n / 2);
            c.push(s);
        }
        for i in 0..n {
            let mut s = sc.clone();
            s.ops.remove(i);
            c.push(s);
        }
        for i in 0..sc.probes.len() {
            if sc.probes.len() > 1 {
                let mut s = sc.clone();
                s.probes.remove(i);
                c.push(s);
            }
            let m = sc.probes[i].short_ops.len();
            if m > 1 {
                let mut s = sc.clone();
                s.probes[i].short_ops.truncate(m / 2);
                c.push(s);
            }
            for j in 0..m {
                let mut s = sc.clone();
                s.probes[i].short_ops.remove(j);
                c.push(s);
            }
        }
        // drop items (keep probes pointing inside)
        for i in 0..sc.items.len() {
            let mut s = sc.clone();
            s.items.remove(i);
            c.push(s);
        }
        // shorten tokens
        for i in 0..sc.items.len() {
            let l = sc.items[i].0.len();
            for j in 0..l {
                let mut s = sc.clone();
                s.items[i].0.remove(j);
                c.push(s);
            }
        }
        // simplify op arguments
        for i in 0..n {
            match &sc.ops[i] {
                CurOp::Insert(cu, v) if !v.is_empty() => {
                    let mut s = sc.clone();
                    s.ops[i] = CurOp::Insert(*cu, v[..v.len() - 1].to_vec());
                    c.push(s);
                    for (k, b) in v.iter().enumerate() {
                        if !b.0.is_empty() {
                            let mut s = sc.clone();
                            let mut v2 = v.clone();
                            v2[k] = B(vec![]);
                            s.ops[i] = CurOp::Insert(*cu, v2);
                            c.push(s);
                        }
                    }
                }
                CurOp::InsertFailing(cu, v, k, h) if v.len() > 1 => {
                    let mut s = sc.clone();
                    s.ops[i] = CurOp::InsertFailing(*cu, v[..v.len() - 1].to_vec(), (*k).min(v.len() as u8 - 2), *h);
                    c.push(s);
                }
                CurOp::Seek(cu, sk) => {
                    let simpler = match sk {
                        Seek::Start(p) if *p > 1 => Some(Seek::Start(p / 2)),
                        Seek::Current(p) if p.unsigned_abs() > 1 => Some(Seek::Current(p / 2)),
                        Seek::End(p) if p.unsigned_abs() > 1 => Some(Seek::End(p / 2)),
                        _ => None,
                    };
                    if let Some(x) = simpler {
                        let mut s = sc.clone();
                        s.ops[i] = CurOp::Seek(*cu, x);
                        c.push(s);
                    }
                }
                CurOp::Helper(h) => {
                    for j in 0..h.hay.0.len() {
                        let mut s = sc.clone();
                        let mut h2 = h.clone();
                        h2.hay.0.remove(j);
                        s.ops[i] = CurOp::Helper(h2);
                        c.push(s);
                    }
                    if h.needle.chars().count() > 1 {
                        let mut s = sc.clone();
                        let mut h2 = h.clone();
                        h2.needle.pop();
                        s.ops[i] = CurOp::Helper(h2);
                        c.push(s);
                    }
                }
                _ => {}
            }
        }
        c
    }

    fn fixed(&self) -> Vec<(String, LexSc)> {
        match self.0 {
            Mode::C14 => vec![(
                "overshoot-then-remaining".into(),
                LexSc {
                    items: vec![B::s("a")],
                    ops: vec![CurOp::NextOs(0), CurOp::NextOs(0), CurOp::Remaining(0)],
                    probes: vec![],
                },
            ), (
                "overshoot-then-insert".into(),
                LexSc {
                    items: vec![],
                    ops: vec![CurOp::Next(0), CurOp::Insert(0, vec![B::s("x")]), CurOp::PeekOs(0)],
                    probes: vec![],
                },
            )],
            Mode::C13 => vec![],
        }
    }
}

fn osb(o: &OsStr) -> &[u8] {
    o.as_bytes()
}

fn exec_c14(sc: &LexSc, log: &mut Log, out: &mut Outcome, cur_op: &Cell<&'static str>) {
    let mut raw = RawArgs::new(sc.items.iter().map(|b| b.os()));
    let mut model: Vec<Vec<u8>> = sc.items.iter().map(|b| b.0.clone()).collect();
    let mut cursors = [raw.cursor(), raw.cursor(), raw.cursor()];
    let mut mpos = [0usize; 3];
    let mut shape = ShapeHasher::new();
    out.nontrivial = sc.ops.len() >= 2;

    macro_rules! fail {
        ($clause:expr, $site:expr, $($arg:tt)*) => {{
            out.violate($clause, $site, format!($($arg)*));
            return;
        }};
    }

    for (step, op) in sc.ops.iter().enumerate() {
        out.steps += 1;
        match op {
            CurOp::Next(c) | CurOp::NextOs(c) => {
                let c = *c as usize % 3;
                let is_next = matches!(op, CurOp::Next(_));
                cur_op.set(if is_next { "next" } else { "next_os" });
                shape.add(1);
                let want = model.get(mpos[c]).cloned();
                mpos[c] = (mpos[c] + 1).min(model.len());
                if want.is_none() {
                    out.count("probe.next_at_end");
                }
                let got: Option<Vec<u8>> = if is_next {
                    raw.next(&mut cursors[c]).map(|p| osb(p.to_value_os()).to_vec())
                } else {
                    raw.next_os(&mut cursors[c]).map(|o| osb(o).to_vec())
                };
                ev!(log, "{step} {} c{c} -> {:?}", cur_op.get(), got.as_deref().map(esc));
                out.comparisons += 1;
                if got != want {
                    fail!("cursor-op-result", cur_op.get(), "step {step}: {} on cursor {c} returned {:?}, an index into the list gives {:?}", cur_op.get(), got.as_deref().map(esc), want.as_deref().map(esc));
                }
            }
            CurOp::Peek(c) | CurOp::PeekOs(c) => {
                let c = *c as usize % 3;
                let is_p = matches!(op, CurOp::Peek(_));
                cur_op.set(if is_p { "peek" } else { "peek_os" });
                shape.add(2);
                let want = model.get(mpos[c]).cloned();
                let got: Option<Vec<u8>> = if is_p {
                    raw.peek(&cursors[c]).map(|p| osb(p.to_value_os()).to_vec())
                } else {
                    raw.peek_os(&cursors[c]).map(|o| osb(o).to_vec())
                };
                ev!(log, "{step} {} c{c} -> {:?}", cur_op.get(), got.as_deref().map(esc));
                out.comparisons += 1;
                if got != want {
                    fail!("cursor-op-result", cur_op.get(), "step {step}: {} on cursor {c} returned {:?}, model {:?}", cur_op.get(), got.as_deref().map(esc), want.as_deref().map(esc));
                }
            }
            CurOp::Remaining(c) => {
                let c = *c as usize % 3;
                cur_op.set("remaining");
                shape.add(3);
                let want: Vec<Vec<u8>> = model[mpos[c]..].to_vec();
                mpos[c] = model.len();
                let got: Vec<Vec<u8>> = raw.remaining(&mut cursors[c]).map(|o| osb(o).to_vec()).collect();
                ev!(log, "{step} remaining c{c} -> {} items", got.len());
                out.comparisons += 1;
                if got != want {
                    fail!("cursor-op-result", "remaining", "step {step}: remaining on cursor {c} returned {} items {:?}, model {} items", got.len(), got.iter().map(|x| esc(x)).collect::<Vec<_>>(), want.len());
                }
            }
            CurOp::IsEnd(c) => {
                let c = *c as usize % 3;
                cur_op.set("is_end");
                shape.add(4);
                let want = mpos[c] >= model.len();
                let got = raw.is_end(&cursors[c]);
                ev!(log, "{step} is_end c{c} -> {got}");
                out.comparisons += 1;
                if got != want {
                    fail!("cursor-op-result", "is_end", "step {step}: is_end on cursor {c} returned {got}, model {want}");
                }
            }
            CurOp::Seek(c, sk) => {
                let c = *c as usize % 3;
                cur_op.set("seek");
                shape.add(5);
                let len = model.len();
                let (pos, target) = match sk {
                    Seek::Start(p) => (SeekFrom::Start(*p), *p as i128),
                    Seek::Current(o) => (SeekFrom::Current(*o), mpos[c] as i128 + *o as i128),
                    Seek::End(o) => (SeekFrom::End(*o), len as i128 + *o as i128),
                };
                if target < 0 {
                    out.count("probe.seek_clamped_low");
                } else if target > len as i128 {
                    out.count("probe.seek_clamped_high");
                }
                if matches!(sk, Seek::Current(o) | Seek::End(o) if *o == i64::MIN || *o == i64::MAX) || matches!(sk, Seek::Start(p) if *p > i64::MAX as u64) {
                    out.count("probe.seek_extreme_offset");
                }
                mpos[c] = clamp_pos(target, len);
                raw.seek(&mut cursors[c], pos);
                ev!(log, "{step} seek c{c} {:?}", sk);
            }
            CurOp::Insert(c, new) => {
                let c = *c as usize % 3;
                cur_op.set("insert");
                shape.add(6);
                let at = mpos[c];
                model.splice(at..at, new.iter().map(|b| b.0.clone()));
                if at > 0 && at == model.len() - new.len() {
                    out.count("probe.insert_at_end");
                }
                raw.insert(&cursors[c], new.iter().map(|b| b.os()));
                ev!(log, "{step} insert c{c} {} items", new.len());
            }
            CurOp::InsertFailing(c, new, fail_at, hint) => {
                let c = *c as usize % 3;
                cur_op.set("insert");
                shape.add(20 + *hint as u64);
                out.count("fault.insert_iterator_panics");
                let at = mpos[c];
                let fail_at = (*fail_at as usize).min(new.len());
                let it = FailingIter { items: new.iter().map(|b| b.os()).collect(), i: 0, fail_at, hint: *hint };
                let r = std::panic::catch_unwind(std::panic::AssertUnwindSafe(|| raw.insert(&cursors[c], it)));
                match r {
                    Ok(()) => fail!("cursor-op-result", "insert-failing-iterator", "step {step}: insert returned normally although the caller's iterator panicked at item {fail_at}"),
                    Err(payload) => {
                        if payload.downcast_ref::<InjectedFault>().is_none() {
                            std::panic::resume_unwind(payload);
                        }
                    }
                }
                // a growable list that was being spliced when the caller's iterator failed still holds every
                // earlier item in order, with some prefix of the delivered items at the cursor; cursors keep
                // their index
                let mut all = raw.cursor();
                let now: Vec<Vec<u8>> = raw.remaining(&mut all).map(|o| osb(o).to_vec()).collect();
                ev!(log, "{step} insert c{c} failing at {fail_at} of {} -> {} items", new.len(), now.len());
                out.comparisons += 1;
                let extra = now.len() as i64 - model.len() as i64;
                let ok = extra >= 0
                    && extra as usize <= fail_at
                    && now[..at] == model[..at]
                    && now[at..at + extra as usize].iter().zip(new.iter()).all(|(a, b)| *a == b.0)
                    && now[at + extra as usize..] == model[at..];
                if !ok {
                    fail!("cursor-op-result", "insert-failing-iterator", "step {step}: after an insert at index {at} whose iterator panicked at item {fail_at}, the list is {:?}; it was {:?} and {:?} had been delivered", now.iter().map(|x| esc(x)).collect::<Vec<_>>(), model.iter().map(|x| esc(x)).collect::<Vec<_>>(), new[..fail_at].iter().map(|x| esc(&x.0)).collect::<Vec<_>>());
                }
                if extra > 0 {
                    out.count("probe.failing_insert_kept_a_prefix");
                }
                model = now;
            }
            CurOp::CloneCursor(a, b) => {
                let a = *a as usize % 3;
                let b = *b as usize % 3;
                cur_op.set("clone");
                shape.add(7);
                cursors[b] = cursors[a].clone();
                mpos[b] = mpos[a];
                ev!(log, "{step} clone c{a} -> c{b}");
            }
            CurOp::Cmp(a, b) => {
                let a = *a as usize % 3;
                let b = *b as usize % 3;
                cur_op.set("cmp");
                shape.add(8);
                let got = cursors[a].cmp(&cursors[b]);
                let want = mpos[a].cmp(&mpos[b]);
                ev!(log, "{step} cmp c{a} c{b} -> {:?}", got);
                out.comparisons += 1;
                if got != want {
                    fail!("cursor-position", "cmp", "step {step}: cursor {a} vs cursor {b} compare {:?}, model positions {} vs {} compare {:?}", got, mpos[a], mpos[b], want);
                }
            }
            CurOp::Helper(h) => {
                shape.add(9 + h.which as u64);
                if let Some((site, d)) = helper_check(h, log, step, cur_op, out) {
                    fail!("helper-result", site, "step {step}: {d}");
                }
            }
        }
        // Lock-step position check of every live cursor after every operation.
        cur_op.set("position-observation");
        for c in 0..3 {
            let want_peek = model.get(mpos[c]);
            let got_peek = raw.peek_os(&cursors[c]).map(osb);
            out.comparisons += 1;
            if got_peek != want_peek.map(|v| v.as_slice()) {
                fail!("cursor-position", op_name(op), "after step {step} ({}): cursor {c} peeks {:?}, model position {} of {} peeks {:?}", op_name(op), got_peek.map(esc), mpos[c], model.len(), want_peek.map(|v| esc(v)));
            }
            let mut probe = cursors[c].clone();
            let rem = raw.remaining(&mut probe).count();
            if rem != model.len() - mpos[c] {
                fail!("cursor-position", op_name(op), "after step {step} ({}): cursor {c} has {rem} remaining items, model position {} of {} has {}", op_name(op), mpos[c], model.len(), model.len() - mpos[c]);
            }
        }
    }
    out.shape = shape.get();
}

/// Payload of the panic raised by the caller-side iterator fault.
struct InjectedFault;

struct FailingIter {
    items: Vec<std::ffi::OsString>,
    i: usize,
    fail_at: usize,
    hint: u8,
}

impl Iterator for FailingIter {
    type Item = std::ffi::OsString;
    fn next(&mut self) -> Option<Self::Item> {
        if self.i == self.fail_at {
            std::panic::panic_any(InjectedFault);
        }
        self.i += 1;
        self.items.get(self.i - 1).cloned()
    }
    fn size_hint(&self) -> (usize, Option<usize>) {
        let left = self.items.len() - self.i.min(self.items.len());
        match self.hint {
            0 => (0, None),
            1 => (left, Some(left)),
            2 => (self.fail_at.saturating_sub(self.i), None),
            _ => (left.min(1), None),
        }
    }
}

fn op_name(op: &CurOp) -> &'static str {
    match op {
        CurOp::Next(_) => "next",
        CurOp::NextOs(_) => "next_os",
        CurOp::Peek(_) => "peek",
        CurOp::PeekOs(_) => "peek_os",
        CurOp::Remaining(_) => "remaining",
        CurOp::IsEnd(_) => "is_end",
        CurOp::Seek(..) => "seek",
        CurOp::Insert(..) => "insert",
        CurOp::InsertFailing(..) => "insert-failing-iterator",
        CurOp::CloneCursor(..) => "clone",
        CurOp::Cmp(..) => "cmp",
        CurOp::Helper(_) => "helper",
    }
}

fn helper_check(h: &HelperOp, log: &mut Log, step: usize, cur_op: &Cell<&'static str>, out: &mut Outcome) -> Option<(&'static str, String)> {
    let hay = h.hay.as_os();
    let hb = &h.hay.0[..];
    let nb = h.needle.as_bytes();
    if h.needle.is_empty() {
        return None;
    }
    out.comparisons += 1;
    if m_find(hb, nb).is_some() {
        out.count("probe.helper_needle_present");
    }
    if !h.hay.is_utf8() {
        out.count("probe.helper_non_utf8_haystack");
    }
    match h.which % 7 {
        0 => {
            cur_op.set("find");
            let got = hay.find(&h.needle);
            ev!(log, "{step} find {} {:?} -> {:?}", h.hay.esc(), h.needle, got);
            let want = m_find(hb, nb);
            (got != want).then(|| ("find", format!("find({}, {:?}) = {:?}, bytes give {:?}", h.hay.esc(), h.needle, got, want)))
        }
        1 => {
            cur_op.set("contains");
            let got = hay.contains(&h.needle);
            ev!(log, "{step} contains {} {:?} -> {got}", h.hay.esc(), h.needle);
            let want = m_find(hb, nb).is_some();
            (got != want).then(|| ("contains", format!("contains({}, {:?}) = {got}, bytes give {want}", h.hay.esc(), h.needle)))
        }
        2 => {
            cur_op.set("starts_with");
            let got = hay.starts_with(&h.needle);
            ev!(log, "{step} starts_with {} {:?} -> {got}", h.hay.esc(), h.needle);
            let want = hb.len() >= nb.len() && &hb[..nb.len()] == nb;
            (got != want).then(|| ("starts_with", format!("starts_with({}, {:?}) = {got}, bytes give {want}", h.hay.esc(), h.needle)))
        }
        3 => {
            cur_op.set("strip_prefix");
            let got = hay.strip_prefix(&h.needle).map(|o| osb(o).to_vec());
            ev!(log, "{step} strip_prefix {} {:?} -> {:?}", h.hay.esc(), h.needle, got.as_deref().map(esc));
            let want = if hb.len() >= nb.len() && &hb[..nb.len()] == nb { Some(hb[nb.len()..].to_vec()) } else { None };
            (got != want).then(|| ("strip_prefix", format!("strip_prefix({}, {:?}) = {:?}, bytes give {:?}", h.hay.esc(), h.needle, got.as_deref().map(esc), want.as_deref().map(esc))))
        }
        4 => {
            cur_op.set("split");
            let mut got: Vec<Vec<u8>> = Vec::new();
            for (i, p) in hay.split(&h.needle).enumerate() {
                if i > 64 {
                    return Some(("split", format!("split({}, {:?}) yields more than 64 pieces (does not terminate)", h.hay.esc(), h.needle)));
                }
                got.push(osb(p).to_vec());
            }
            ev!(log, "{step} split {} {:?} -> {} pieces", h.hay.esc(), h.needle, got.len());
            let want = m_split(hb, nb);
            (got != want).then(|| ("split", format!("split({}, {:?}) = {:?}, bytes give {:?}", h.hay.esc(), h.needle, got.iter().map(|x| esc(x)).collect::<Vec<_>>(), want.iter().map(|x| esc(x)).collect::<Vec<_>>())))
        }
        5 => {
            cur_op.set("split_once");
            let got = hay.split_once(&h.needle).map(|(a, b)| (osb(a).to_vec(), osb(b).to_vec()));
            ev!(log, "{step} split_once {} {:?} -> {:?}", h.hay.esc(), h.needle, got.as_ref().map(|(a, b)| (esc(a), esc(b))));
            let want = m_find(hb, nb).map(|i| (hb[..i].to_vec(), hb[i + nb.len()..].to_vec()));
            (got != want).then(|| ("split_once", format!("split_once({}, {:?}) = {:?}, bytes give {:?}", h.hay.esc(), h.needle, got.as_ref().map(|(a, b)| (esc(a), esc(b))), want.as_ref().map(|(a, b)| (esc(a), esc(b))))))
        }
        _ => {
            cur_op.set("try_str");
            let got = hay.try_str().map(|s| s.as_bytes().to_vec()).map_err(|e| e.valid_up_to());
            ev!(log, "{step} try_str {} -> ok={}", h.hay.esc(), got.is_ok());
            let want: Result<Vec<u8>, usize> = match std::str::from_utf8(hb) {
                Ok(s) => Ok(s.as_bytes().to_vec()),
                Err(e) => Err(e.valid_up_to()),
            };
            (got != want).then(|| ("try_str", format!("try_str({}) = {:?}, bytes give {:?}", h.hay.esc(), got, want)))
        }
    }
}

fn exec_c13(sc: &LexSc, log: &mut Log, out: &mut Outcome, cur_op: &Cell<&'static str>) {
    let raw = RawArgs::new(sc.items.iter().map(|b| b.os()));
    let mut shape = ShapeHasher::new();
    out.nontrivial = sc.probes.len() >= 2 || sc.probes.iter().any(|p| p.short_ops.len() >= 2);
    if sc.items.is_empty() {
        out.nontrivial = false;
        return;
    }

    macro_rules! fail {
        ($clause:expr, $site:expr, $($arg:tt)*) => {{
            out.violate($clause, $site, format!($($arg)*));
            return;
        }};
    }

    for (pi, probe) in sc.probes.iter().enumerate() {
        let idx = probe.item as usize % sc.items.len();
        let t: &[u8] = &sc.items[idx].0;
        let mut cursor = raw.cursor();
        cur_op.set("seek");
        raw.seek(&mut cursor, SeekFrom::Start(idx as u64));
        cur_op.set(if probe.via_next { "next" } else { "peek" });
        let pa = if probe.via_next { raw.next(&mut cursor) } else { raw.peek(&cursor) };
        let pa = match pa {
            Some(p) => p,
            None => fail!("token-access", "cursor", "probe {pi}: item {idx} of {} not reachable through the cursor", sc.items.len()),
        };
        out.steps += 1;
        shape.add(100);

        // ---- classification (model on bytes)
        cur_op.set("classify");
        let utf8 = std::str::from_utf8(t).is_ok();
        let m_empty = t.is_empty();
        let m_stdio = t == b"-";
        let m_escape = t == b"--";
        let m_long = t.starts_with(b"--") && !m_escape;
        let m_short = t.starts_with(b"-") && !m_stdio && !t.starts_with(b"--");
        let g_empty = pa.is_empty();
        let g_stdio = pa.is_stdio();
        let g_escape = pa.is_escape();
        let g_long = pa.is_long();
        let g_short = pa.is_short();
        let g_neg = pa.is_negative_number();
        ev!(log, "p{pi} token {} empty={g_empty} stdio={g_stdio} escape={g_escape} long={g_long} short={g_short} neg={g_neg}", esc(t));
        out.comparisons += 1;
        if (g_empty, g_stdio, g_escape, g_long, g_short) != (m_empty, m_stdio, m_escape, m_long, m_short) {
            fail!("classification", "is_*", "token {}: (is_empty,is_stdio,is_escape,is_long,is_short) = {:?}, bytes say {:?}", esc(t), (g_empty, g_stdio, g_escape, g_long, g_short), (m_empty, m_stdio, m_escape, m_long, m_short));
        }
        let n_true = [g_stdio, g_escape, g_long, g_short].iter().filter(|x| **x).count();
        if n_true > 1 {
            fail!("classification", "exclusive", "token {}: more than one of stdio/escape/long/short holds", esc(t));
        }
        if t != b"-" {
            let m_neg = utf8 && t.first() == Some(&b'-') && m_is_number(&t[1..]);
            if g_neg != m_neg {
                fail!("classification", "is_negative_number", "token {}: is_negative_number = {g_neg}, number shape says {m_neg}", esc(t));
            }
            if g_neg && !g_short {
                fail!("classification", "negative-number-not-short", "token {}: negative number that is not short-shaped", esc(t));
            }
            if g_neg {
                out.count("probe.negative_number_token");
            }
        }
        if osb(pa.to_value_os()) != t {
            fail!("classification", "to_value_os", "token {}: to_value_os returned {}", esc(t), esc(osb(pa.to_value_os())));
        }
        match pa.to_value() {
            Ok(s) => {
                if !utf8 || s.as_bytes() != t {
                    fail!("classification", "to_value", "token {}: to_value returned Ok({:?})", esc(t), s);
                }
            }
            Err(o) => {
                if utf8 || osb(o) != t {
                    fail!("classification", "to_value", "token {}: to_value returned Err({})", esc(t), esc(osb(o)));
                }
            }
        }
        // ---- long decomposition
        cur_op.set("to_long");
        let gl = pa.to_long();
        out.comparisons += 1;
        if gl.is_some() != m_long {
            fail!("long-reassembly", "presence", "token {}: to_long is_some = {}, is_long = {m_long}", esc(t), gl.is_some());
        }
        if let Some((flag, value)) = gl {
            let r = &t[2..];
            let (mf, mv) = match r.iter().position(|b| *b == b'=') {
                Some(i) => (&r[..i], Some(&r[i + 1..])),
                None => (r, None),
            };
            let (gf, gf_utf8): (&[u8], bool) = match flag {
                Ok(s) => (s.as_bytes(), true),
                Err(o) => (osb(o), false),
            };
            let mut re = b"--".to_vec();
            re.extend_from_slice(gf);
            if let Some(v) = value {
                re.push(b'=');
                re.extend_from_slice(osb(v));
            }
            ev!(log, "p{pi} to_long flag={} utf8={gf_utf8} value={:?}", esc(gf), value.map(|v| esc(osb(v))));
            if re != t {
                fail!("long-reassembly", "bytes", "token {}: `--` + name [+ `=` + value] re-assembles to {}", esc(t), esc(&re));
            }
            if gf != mf || value.map(osb) != mv {
                fail!("long-reassembly", "split-at-first-equals", "token {}: to_long = ({}, {:?}), split at the first `=` gives ({}, {:?})", esc(t), esc(gf), value.map(|v| esc(osb(v))), esc(mf), mv.map(esc));
            }
            if gf_utf8 != std::str::from_utf8(mf).is_ok() {
                fail!("long-reassembly", "name-utf8", "token {}: long name reported as {} but its bytes are {}", esc(t), if gf_utf8 { "UTF-8" } else { "non-UTF-8" }, if gf_utf8 { "not" } else { "valid" });
            }
            if !gf_utf8 {
                out.count("probe.long_name_non_utf8");
            }
        }
        // ---- short walk
        cur_op.set("to_short");
        let gs = pa.to_short();
        out.comparisons += 1;
        if gs.is_some() != m_short {
            fail!("short-walk", "presence", "token {}: to_short is_some = {}, is_short = {m_short}", esc(t), gs.is_some());
        }
        let Some(s0) = gs else { continue };
        let r = &t[1..];
        let mut its = vec![s0];
        let mut ms = vec![MShort::new(r)];
        if ms[0].suffix {
            out.count("probe.short_cluster_with_invalid_tail");
        }
        // a complete fresh walk on a clone first: characters in order, then the tail
        {
            cur_op.set("full-walk");
            let mut w = its[0].clone();
            let mut m = ms[0].clone();
            let mut guard = 0;
            loop {
                guard += 1;
                if guard > 64 {
                    fail!("short-walk", "non-termination", "token {}: next_flag yields more than 64 items", esc(t));
                }
                let g = w.next_flag().map(|x| x.map_err(|o| osb(o).to_vec()));
                let e = m.next_flag();
                if g != e {
                    fail!("short-walk", "full-walk", "token {}: walking the cluster gives {:?} where the bytes give {:?}", esc(t), g.as_ref().map(|x| x.as_ref().map_err(|v| esc(v))), e.as_ref().map(|x| x.as_ref().map_err(|v| esc(v))));
                }
                if g.is_none() {
                    break;
                }
            }
            out.comparisons += 1;
        }
        for (si, sop) in probe.short_ops.iter().enumerate() {
            out.steps += 1;
            let sel = |i: &u8, n: usize| *i as usize % n;
            match sop {
                ShortOp::NextFlag(i) | ShortOp::IterNext(i) => {
                    let i = sel(i, its.len());
                    let iter_next = matches!(sop, ShortOp::IterNext(_));
                    cur_op.set(if iter_next { "Iterator::next" } else { "next_flag" });
                    shape.add(1);
                    let g = if iter_next { its[i].next() } else { its[i].next_flag() }.map(|x| x.map_err(|o| osb(o).to_vec()));
                    let e = ms[i].next_flag();
                    ev!(log, "p{pi}.{si} {} it{i} -> {:?}", cur_op.get(), g.as_ref().map(|x| x.as_ref().map_err(|v| esc(v))));
                    out.comparisons += 1;
                    if matches!(g, Some(Err(_))) {
                        out.count("probe.short_invalid_tail_yielded");
                    }
                    if g != e {
                        fail!("short-walk", cur_op.get(), "token {} step {si}: {} on iterator {i} = {:?}, bytes give {:?}", esc(t), cur_op.get(), g.as_ref().map(|x| x.as_ref().map_err(|v| esc(v))), e.as_ref().map(|x| x.as_ref().map_err(|v| esc(v))));
                    }
                }
                ShortOp::NextValue(i) => {
                    let i = sel(i, its.len());
                    cur_op.set("next_value_os");
                    shape.add(2);
                    let mid = ms[i].pos > 0 && ms[i].pos < ms[i].vlen;
                    let g = its[i].next_value_os().map(|o| osb(o).to_vec());
                    let e = ms[i].next_value();
                    ev!(log, "p{pi}.{si} next_value_os it{i} -> {:?}", g.as_deref().map(esc));
                    out.comparisons += 1;
                    if mid {
                        out.count("probe.value_after_flags");
                    }
                    if g != e {
                        fail!("short-walk", "next_value_os", "token {} step {si}: next_value_os on iterator {i} = {:?}, the unread bytes are {:?}", esc(t), g.as_deref().map(esc), e.as_deref().map(esc));
                    }
                }
                ShortOp::AdvanceBy(i, n) => {
                    let i = sel(i, its.len());
                    cur_op.set("advance_by");
                    shape.add(3);
                    let g = its[i].advance_by(*n as usize);
                    let e = ms[i].advance_by(*n as usize);
                    ev!(log, "p{pi}.{si} advance_by it{i} {n} -> {:?}", g);
                    out.comparisons += 1;
                    if g != e {
                        fail!("short-walk", "advance_by", "token {} step {si}: advance_by({n}) on iterator {i} = {:?}, model {:?}", esc(t), g, e);
                    }
                }
                ShortOp::IsEmpty(i) => {
                    let i = sel(i, its.len());
                    cur_op.set("is_empty");
                    shape.add(4);
                    let g = its[i].is_empty();
                    let e = ms[i].is_empty();
                    ev!(log, "p{pi}.{si} is_empty it{i} -> {g}");
                    out.comparisons += 1;
                    if g != e {
                        fail!("short-walk", "is_empty", "token {} step {si}: is_empty on iterator {i} = {g}, model {e}", esc(t));
                    }
                }
                ShortOp::IsNeg(i) => {
                    let i = sel(i, its.len());
                    cur_op.set("ShortFlags::is_negative_number");
                    shape.add(5);
                    let g = its[i].is_negative_number();
                    ev!(log, "p{pi}.{si} is_negative_number it{i} -> {g}");
                    if ms[i].fresh {
                        let e = !ms[i].suffix && m_is_number(&ms[i].r[..ms[i].vlen]);
                        out.comparisons += 1;
                        if g != e {
                            fail!("classification", "ShortFlags::is_negative_number", "token {}: fresh ShortFlags::is_negative_number = {g}, number shape says {e}", esc(t));
                        }
                    } else {
                        // on an advanced iterator the answer describes what is still unread (the documentation only
                        // says "ideally call this before"; the answer may not be a stale one from another position)
                        // (with nothing left to read the unchanged tree answers true; that corner is not asserted)
                        let e = !ms[i].suffix && m_is_number(&ms[i].r[ms[i].pos..ms[i].vlen]);
                        out.comparisons += 1;
                        if g != e && ms[i].pos < ms[i].vlen {
                            fail!("classification", "ShortFlags::is_negative_number-advanced", "token {} step {si}: is_negative_number on the advanced iterator {i} = {g}, the unread part {} says {e}", esc(t), esc(&ms[i].r[ms[i].pos..]));
                        }
                    }
                }
                ShortOp::Fork(i) => {
                    let i = sel(i, its.len());
                    cur_op.set("clone");
                    shape.add(6);
                    if its.len() < 4 {
                        let c = its[i].clone();
                        its.push(c);
                        let m = ms[i].clone();
                        ms.push(m);
                        out.count("probe.short_iterator_forked");
                    }
                    ev!(log, "p{pi}.{si} fork it{i}");
                }
            }
            // lock-step: is_empty of every live iterator equals the model's
            for k in 0..its.len() {
                if its[k].is_empty() != ms[k].is_empty() {
                    fail!("short-walk", "lockstep-is_empty", "token {} after step {si}: iterator {k} is_empty = {}, model {}", esc(t), its[k].is_empty(), ms[k].is_empty());
                }
            }
        }
        // drain: what is left must be exactly the unread bytes
        cur_op.set("drain");
        for k in 0..its.len() {
            let g = its[k].next_value_os().map(|o| osb(o).to_vec());
            let e = ms[k].next_value();
            out.comparisons += 1;
            if g != e {
                fail!("short-walk", "drain", "token {}: after the history, iterator {k} has {:?} left, the unread bytes are {:?}", esc(t), g.as_deref().map(esc), e.as_deref().map(esc));
            }
        }
    }
    out.shape = shape.get();
}
