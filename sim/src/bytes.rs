//! Byte strings (possibly invalid UTF-8) that serialise as readable, lossless JSON strings:
//! printable ASCII is kept, everything else (and `%`) is written as `%HH`.

use serde::{Deserialize, Deserializer, Serialize, Serializer};
use std::ffi::{OsStr, OsString};
use std::os::unix::ffi::{OsStrExt, OsStringExt};

#[derive(Clone, PartialEq, Eq, Hash, PartialOrd, Ord, Default)]
pub struct B(pub Vec<u8>);

impl B {
    pub fn s(s: &str) -> B {
        B(s.as_bytes().to_vec())
    }
    pub fn os(&self) -> OsString {
        OsString::from_vec(self.0.clone())
    }
    pub fn as_os(&self) -> &OsStr {
        OsStr::from_bytes(&self.0)
    }
    pub fn from_os(s: &OsStr) -> B {
        B(s.as_bytes().to_vec())
    }
    pub fn is_utf8(&self) -> bool {
        std::str::from_utf8(&self.0).is_ok()
    }
    pub fn as_str(&self) -> Option<&str> {
        std::str::from_utf8(&self.0).ok()
    }
    pub fn esc(&self) -> String {
        esc(&self.0)
    }
}

pub fn esc(b: &[u8]) -> String {
    let mut out = String::with_capacity(b.len());
    for &c in b {
        if (0x20..0x7f).contains(&c) && c != b'%' {
            out.push(c as char);
        } else {
            out.push_str(&format!("%{:02X}", c));
        }
    }
    out
}

pub fn unesc(s: &str) -> Result<Vec<u8>, String> {
    let b = s.as_bytes();
    let mut out = Vec::with_capacity(b.len());
    let mut i = 0;
    while i < b.len() {
        if b[i] == b'%' {
            if i + 3 > b.len() {
                return Err(format!("truncated escape in {s:?}"));
            }
            let h = std::str::from_utf8(&b[i + 1..i + 3]).map_err(|e| e.to_string())?;
            out.push(u8::from_str_radix(h, 16).map_err(|e| e.to_string())?);
            i += 3;
        } else {
            out.push(b[i]);
            i += 1;
        }
    }
    Ok(out)
}

impl std::fmt::Debug for B {
    fn fmt(&self, f: &mut std::fmt::Formatter<'_>) -> std::fmt::Result {
        write!(f, "b\"{}\"", self.esc())
    }
}

impl Serialize for B {
    fn serialize<S: Serializer>(&self, s: S) -> Result<S::Ok, S::Error> {
        s.serialize_str(&self.esc())
    }
}

impl<'de> Deserialize<'de> for B {
    fn deserialize<D: Deserializer<'de>>(d: D) -> Result<Self, D::Error> {
        let s = String::deserialize(d)?;
        unesc(&s).map(B).map_err(serde::de::Error::custom)
    }
}
