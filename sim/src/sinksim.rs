//! sinksim — generated completion scripts (C16) and man pages (C19) under a fault-injecting
//! `&mut dyn Write` sink, across command histories, and (bash) under a controlled shell process.

use crate::bytes::B;
use crate::core::*;
use crate::ev;
use crate::faulty_writer::*;
use crate::gen::{gen_argv, gen_tree, GenCfg};
use crate::rng::Rng;
use crate::spec::*;
use clap::Command;
use clap_complete::aot::Shell;
use serde::{Deserialize, Serialize};
use std::io::{Read, Write};
use std::process::Stdio;

#[derive(Clone, Copy, Debug, Hash, Serialize, Deserialize, PartialEq, Eq)]
pub enum Gen {
    Bash,
    Zsh,
    Fish,
    PowerShell,
    Elvish,
    Nushell,
    Man,
}

impl Gen {
    fn name(self) -> &'static str {
        match self {
            Gen::Bash => "bash",
            Gen::Zsh => "zsh",
            Gen::Fish => "fish",
            Gen::PowerShell => "powershell",
            Gen::Elvish => "elvish",
            Gen::Nushell => "nushell",
            Gen::Man => "man",
        }
    }
}

#[derive(Clone, Debug, Hash, Serialize, Deserialize, PartialEq)]
pub struct BashQuery {
    /// indices into subs at each level (modulo), real subcommand names or visible aliases
    pub path: Vec<(u8, u8)>,
    /// which name of the addressed level to take a prefix of, and how long the prefix is
    pub pick: u16,
    pub cut: u8,
}

#[derive(Clone, Debug, Hash, Serialize, Deserialize, PartialEq)]
pub struct SinkSc {
    pub spec: CmdSpec,
    pub gen: Gen,
    /// man page of the subcommand addressed by this path (empty = root)
    #[serde(default)]
    pub man_path: Vec<u8>,
    #[serde(default)]
    pub plan: FaultPlan,
    /// fault every write-call index once (small outputs): fault enumeration
    #[serde(default)]
    pub enumerate: bool,
    /// an argv parsed on the command before generating ("previously parsed" history)
    #[serde(default)]
    pub prior_argv: Vec<B>,
    #[serde(default)]
    pub queries: Vec<BashQuery>,
    /// the file-writing entry point (`generate_to`): 0 not exercised, 1 empty directory, 2 the directory does
    /// not exist, 3 the "directory" is a regular file, 4 the target file exists with longer content
    #[serde(default)]
    pub fs: u8,
    /// overrides given to the `Man` builder (title, section, date, source, manual); empty = none
    #[serde(default)]
    pub man_meta: Vec<String>,
}

#[derive(Clone, Copy, PartialEq)]
pub enum Which {
    C16,
    C19,
}

pub struct SinkSim(pub Which);

// ------------------------------------------------------------------------------------------
// running the generators

thread_local! {
    /// builder overrides applied to every `Man` made while a scenario runs (set by `exec_sink`)
    static MAN_META: std::cell::RefCell<Vec<String>> = const { std::cell::RefCell::new(Vec::new()) };
}

fn new_man(cmd: Command) -> clap_mangen::Man {
    let m = clap_mangen::Man::new(cmd);
    MAN_META.with(|mm| {
        let mm = mm.borrow();
        if mm.len() == 5 {
            m.title(mm[0].clone()).section(mm[1].clone()).date(mm[2].clone()).source(mm[3].clone()).manual(mm[4].clone())
        } else {
            m
        }
    })
}

fn run_generator(g: Gen, cmd: &mut Command, bin: &str, man_path: &[String], w: &mut dyn Write) -> std::io::Result<()> {
    match g {
        Gen::Bash => clap_complete::aot::generate(Shell::Bash, cmd, bin, w),
        Gen::Zsh => clap_complete::aot::generate(Shell::Zsh, cmd, bin, w),
        Gen::Fish => clap_complete::aot::generate(Shell::Fish, cmd, bin, w),
        Gen::PowerShell => clap_complete::aot::generate(Shell::PowerShell, cmd, bin, w),
        Gen::Elvish => clap_complete::aot::generate(Shell::Elvish, cmd, bin, w),
        Gen::Nushell => clap_complete::aot::generate(clap_complete_nushell::Nushell, cmd, bin, w),
        Gen::Man => {
            if man_path.is_empty() {
                return new_man(cmd.clone()).render(w);
            }
            // one page per subcommand, as clap_mangen::generate_to produces them: build the root, then
            // hand each subcommand to Man::new
            let mut root = cmd.clone();
            root.build();
            let mut cur: &Command = &root;
            for n in man_path {
                match cur.find_subcommand(n) {
                    Some(s) => cur = s,
                    None => break,
                }
            }
            return new_man(cur.clone()).render(w);
        }
    }
    Ok(())
}

enum GenOut {
    Ok(Vec<u8>),
    Err(String, Vec<u8>),
    Panic(PanicInfo, Vec<u8>),
}

fn generate_with(g: Gen, cmd: &mut Command, bin: &str, man_path: &[String], plan: &FaultPlan) -> (GenOut, Vec<&'static str>, u32, bool) {
    let mut w = FaultyWriter::new(plan);
    let r = catch(|| run_generator(g, cmd, bin, man_path, &mut w));
    let fired = w.fired.clone();
    let calls = w.calls;
    let hard = w.hard_fired;
    let out = match r {
        Ok(Ok(())) => GenOut::Ok(w.delivered),
        Ok(Err(e)) => GenOut::Err(e.to_string(), w.delivered),
        Err(p) => GenOut::Panic(p, w.delivered),
    };
    (out, fired, calls, hard)
}

// ------------------------------------------------------------------------------------------
// generate_to: the generators writing files into a directory of the real file system

fn gen_scratch_dir() -> Option<std::path::PathBuf> {
    let base = std::env::current_exe().ok()?.parent()?.join(format!("scratch-gen-{}", std::process::id()));
    let _ = std::fs::remove_dir_all(&base);
    let _ = std::fs::remove_file(&base);
    Some(base)
}

/// Display name of every level that gets a man page from `clap_mangen::generate_to` (hidden subtrees do not).
fn man_page_levels<'a>(c: &'a CmdSpec, parent_display: Option<&str>, multicall_root: bool, out: &mut Vec<(String, &'a CmdSpec)>) {
    let display = match (&c.display_name, parent_display) {
        (Some(d), _) => d.clone(),
        (None, None) => c.name.clone(),
        (None, Some(p)) => {
            if p.is_empty() {
                c.name.clone()
            } else {
                format!("{p}-{}", c.name)
            }
        }
    };
    out.push((display.clone(), c));
    let for_children = if parent_display.is_none() && multicall_root { c.display_name.clone().unwrap_or_default() } else { display };
    for s in c.subs.iter().filter(|s| !s.has(CmdSetting::Hide)) {
        man_page_levels(s, Some(&for_children), false, out);
    }
}

fn fs_entry_point(sc: &SinkSc, g: Gen, bin: &str, reference: &[u8], log: &mut Log, out: &mut Outcome) -> Option<(&'static str, String, String)> {
    let dir = gen_scratch_dir()?;
    let fault = match sc.fs {
        2 => "missing_directory",
        3 => "directory_is_a_file",
        4 => "target_exists",
        _ => "none",
    };
    match sc.fs {
        2 => {}
        3 => {
            let _ = std::fs::write(&dir, b"not a directory");
        }
        _ => {
            let _ = std::fs::create_dir_all(&dir);
        }
    }
    out.count_dyn(format!("fault.fs_{fault}"));
    out.count_dyn(format!("op.generate_to_{}", g.name()));
    out.comparisons += 1;
    out.nontrivial = true;
    let expect_ok = matches!(sc.fs, 1 | 4);
    let cleanup = |d: &std::path::Path| {
        let _ = std::fs::remove_dir_all(d);
        let _ = std::fs::remove_file(d);
    };
    let verdict = if g == Gen::Man {
        // names of the pages, and the levels they belong to
        let mut levels = Vec::new();
        man_page_levels(&sc.spec, None, sc.spec.has(CmdSetting::Multicall), &mut levels);
        let mut names: Vec<String> = levels.iter().map(|(n, _)| format!("{n}.1")).collect();
        names.sort();
        let distinct = names.windows(2).all(|w| w[0] != w[1]) && names.iter().all(|n| !n.contains('/') && n != ".1");
        if sc.fs == 4 {
            for n in &names {
                let _ = std::fs::write(dir.join(n), vec![b'x'; 70_000]);
            }
        }
        let r = catch(|| clap_mangen::generate_to(build_cmd(&sc.spec), &dir));
        ev!(log, "man generate_to ({fault}) -> {}", match &r { Ok(Ok(())) => "Ok".to_string(), Ok(Err(e)) => format!("Err({:?})", e.kind()), Err(p) => format!("panic {}", short_file(p)) });
        match r {
            Err(p) => Some(("generate-panic", format!("man/generate_to/{fault}"), format!("clap_mangen::generate_to panicked: {} at {}", p.msg, p.loc))),
            Ok(Err(e)) if expect_ok => Some(("generator-error-on-perfect-sink", "man/generate_to".to_string(), format!("clap_mangen::generate_to into an empty directory failed: {e}"))),
            Ok(Ok(())) if !expect_ok => Some(("fs-error-swallowed", format!("man/generate_to/{fault}"), "clap_mangen::generate_to returned Ok although the output directory cannot be written".to_string())),
            Ok(Err(_)) => None,
            Ok(Ok(())) => {
                let mut found: Vec<String> = std::fs::read_dir(&dir).map(|rd| rd.filter_map(|e| e.ok()).map(|e| e.file_name().to_string_lossy().to_string()).collect()).unwrap_or_default();
                found.sort();
                let mut v = None;
                if distinct && found != names {
                    v = Some(("visible-missing", "man/generate_to/pages".to_string(), format!("clap_mangen::generate_to wrote the pages {found:?}; the visible levels of the tree are {names:?}")));
                }
                if v.is_none() && distinct {
                    for (n, level) in &levels {
                        let text = String::from_utf8_lossy(&std::fs::read(dir.join(format!("{n}.1"))).unwrap_or_default()).to_string();
                        // a page replaces whatever the file held before
                        if sc.fs == 4 && text.contains("xxxxxxxxxxxxxxxxxxxxxxxx") {
                            v = Some(("nondeterministic-output", "man/generate_to/stale-tail".to_string(), format!("page `{n}.1` still ends with the content the file had before clap_mangen::generate_to wrote it ({} bytes in all)", text.len())));
                            break;
                        }
                        // the page of a level names everything visible at that level (help subcommand disabled by
                        // generate_to itself) and stays inside the generator's request vocabulary
                        if let Some((clause, site, d)) = man_checks(level, &[], &text) {
                            // inherited globals are listed on sub-level pages too; they are not required here
                            v = Some((clause, format!("generate_to/{site}"), format!("page `{n}.1` written by clap_mangen::generate_to: {d}")));
                            break;
                        }
                        if let Err(d) = control_lines(&text) {
                            v = Some(("control-line-from-user-text", "generate_to/unknown-request".to_string(), format!("page `{n}.1`: {d}")));
                            break;
                        }
                    }
                }
                v
            }
        }
    } else {
        let file = match g {
            Gen::Bash => format!("{bin}.bash"),
            Gen::Zsh => format!("_{bin}"),
            Gen::Fish => format!("{bin}.fish"),
            Gen::PowerShell => format!("_{bin}.ps1"),
            Gen::Elvish => format!("{bin}.elv"),
            _ => format!("{bin}.nu"),
        };
        if sc.fs == 4 {
            let _ = std::fs::write(dir.join(&file), vec![b'x'; reference.len() + 70_000]);
        }
        // half of the time under a binary name that differs from the command's own name (an installed alias):
        // the reference is then what generate() writes under that same name
        let alt = format!("alt.{bin}.v1");
        let (bin, reference_owned): (&str, Option<Vec<u8>>) = if sc.plan.cap.map(|c| c % 2 == 0).unwrap_or(sc.queries.len() % 2 == 0) {
            let mut fresh = build_cmd(&sc.spec);
            match generate_with(g, &mut fresh, &alt, &[], &FaultPlan::perfect()).0 {
                GenOut::Ok(b) => (alt.as_str(), Some(b)),
                _ => (bin, None),
            }
        } else {
            (bin, None)
        };
        let reference: &[u8] = reference_owned.as_deref().unwrap_or(reference);
        let file = match g {
            Gen::Bash => format!("{bin}.bash"),
            Gen::Zsh => format!("_{bin}"),
            Gen::Fish => format!("{bin}.fish"),
            Gen::PowerShell => format!("_{bin}.ps1"),
            Gen::Elvish => format!("{bin}.elv"),
            _ => format!("{bin}.nu"),
        };
        if sc.fs == 4 {
            let _ = std::fs::write(dir.join(&file), vec![b'x'; reference.len() + 70_000]);
        }
        let mut cmd = build_cmd(&sc.spec);
        let r = catch(|| match g {
            Gen::Bash => clap_complete::aot::generate_to(Shell::Bash, &mut cmd, bin, &dir),
            Gen::Zsh => clap_complete::aot::generate_to(Shell::Zsh, &mut cmd, bin, &dir),
            Gen::Fish => clap_complete::aot::generate_to(Shell::Fish, &mut cmd, bin, &dir),
            Gen::PowerShell => clap_complete::aot::generate_to(Shell::PowerShell, &mut cmd, bin, &dir),
            Gen::Elvish => clap_complete::aot::generate_to(Shell::Elvish, &mut cmd, bin, &dir),
            _ => clap_complete::aot::generate_to(clap_complete_nushell::Nushell, &mut cmd, bin, &dir),
        });
        ev!(log, "{} generate_to ({fault}) -> {}", g.name(), match &r { Ok(Ok(p)) => format!("Ok({:?})", p.file_name()), Ok(Err(e)) => format!("Err({:?})", e.kind()), Err(p) => format!("panic {}", short_file(p)) });
        match r {
            Err(p) => Some(("generate-panic", format!("{}/generate_to/{fault}", g.name()), format!("generate_to panicked: {} at {}", p.msg, p.loc))),
            Ok(Err(e)) if expect_ok => Some(("generator-error-on-perfect-sink", format!("{}/generate_to", g.name()), format!("generate_to into a writable directory failed: {e}"))),
            Ok(Ok(_)) if !expect_ok => Some(("fs-error-swallowed", format!("{}/generate_to/{fault}", g.name()), "generate_to returned Ok although the output directory cannot be written".to_string())),
            Ok(Err(_)) => None,
            Ok(Ok(path)) => {
                let want = dir.join(&file);
                if path != want {
                    Some(("nondeterministic-output", format!("{}/generate_to/path", g.name()), format!("generate_to returned {:?}, the documented file name is {:?}", path.file_name(), file)))
                } else {
                    match std::fs::read(&path) {
                        Ok(b) if b == reference => None,
                        Ok(b) => Some(("nondeterministic-output", format!("{}/generate_to", g.name()), format!("the file written by generate_to ({} bytes) differs from what generate() writes for the same command ({} bytes)", b.len(), reference.len()))),
                        Err(e) => Some(("nondeterministic-output", format!("{}/generate_to", g.name()), format!("generate_to returned Ok but the file cannot be read: {e}"))),
                    }
                }
            }
        }
    };
    cleanup(&dir);
    verdict
}

// ------------------------------------------------------------------------------------------
// man page helpers

fn roff_unescape(s: &str) -> String {
    s.replace("\\-", "-").replace("\\&", "").replace("\\*(Aq", "'").replace("\\(aq", "'").replace("\\fB", "").replace("\\fI", "").replace("\\fR", "").replace("\\\\", "\\")
}

const MAN_REQUESTS: &[&str] = &["ie", "el", "TH", "SH", "TP", "br", "RS", "RE", "IP", "PP"];

fn control_lines(page: &str) -> Result<Vec<String>, String> {
    let mut v = Vec::new();
    for line in page.lines() {
        if line.starts_with('.') || line.starts_with('\'') {
            let rest = &line[1..];
            let req: String = rest.chars().take_while(|c| !c.is_whitespace()).collect();
            if !MAN_REQUESTS.contains(&req.as_str()) {
                return Err(format!("line {line:?} starts a request `{req}` that is not in the generator's vocabulary"));
            }
            v.push(req);
        }
    }
    v.sort();
    Ok(v)
}

/// Same tree with every descriptive text slot replaced by innocuous text of the same
/// emptiness, line count and blank-line positions.
fn twin_text(s: &str) -> String {
    s.split('\n').map(|l| if l.trim().is_empty() { l.chars().filter(|c| c.is_whitespace()).collect::<String>() } else { "text".to_string() }).collect::<Vec<_>>().join("\n")
}

/// The text slots that clap_mangen places on control lines (`.TH` gets the version, `.SH` the help
/// headings) get adversarial content too.
fn hostile_control_slots(rng: &mut Rng, c: &mut CmdSpec) {
    const SUFFIX: &[&str] = &["\n.SH INJECTED", "\n'ne 1", "\n.so /etc/passwd", " \"q", "\\", "\n", "\n.", " x\n\n.br"];
    if let Some(v) = &mut c.version {
        if rng.chance(1, 2) {
            v.push_str(*rng.pick(SUFFIX));
        }
    }
    if let Some(h) = &mut c.subcommand_help_heading {
        if rng.chance(1, 2) {
            h.push_str(*rng.pick(SUFFIX));
        }
    }
    let mut heads: Vec<String> = c.args.iter().filter_map(|a| a.help_heading.clone()).collect();
    heads.sort();
    heads.dedup();
    for h in heads {
        if rng.chance(1, 3) {
            let suffix = *rng.pick(SUFFIX);
            for a in c.args.iter_mut().filter(|a| a.help_heading.as_deref() == Some(h.as_str())) {
                a.help_heading = Some(format!("{h}{suffix}"));
            }
        }
    }
    for s in c.subs.iter_mut() {
        hostile_control_slots(rng, s);
    }
}

fn twin_spec(c: &CmdSpec) -> CmdSpec {
    let mut t = c.clone();
    let f = |o: &mut Option<String>| {
        if let Some(s) = o {
            *s = twin_text(s);
        }
    };
    f(&mut t.about);
    f(&mut t.long_about);
    f(&mut t.before_help);
    f(&mut t.after_help);
    f(&mut t.after_long_help);
    f(&mut t.author);
    f(&mut t.long_version);
    f(&mut t.version);
    f(&mut t.subcommand_help_heading);
    // headings identify sections: distinct headings stay distinct (and equal ones equal, up to case as in
    // the original), only the characters become innocuous
    for a in t.args.iter_mut() {
        if let Some(h) = &mut a.help_heading {
            let mut lines = h.split('\n');
            let first = lines.next().unwrap_or("");
            let tag: String = first.chars().map(|c| if c.is_ascii_alphanumeric() { c } else { 'x' }).collect();
            let mut t2 = format!("H{tag}");
            for l in lines {
                t2.push('\n');
                t2.push_str(if l.trim().is_empty() { "" } else { "text" });
            }
            *h = t2;
        }
    }
    for a in t.args.iter_mut() {
        f(&mut a.help);
        f(&mut a.long_help);
        if let ValParser::Possible(pvs) = &mut a.parser {
            for p in pvs.iter_mut() {
                f(&mut p.help);
            }
        }
    }
    t.subs = t.subs.iter().map(twin_spec).collect();
    t
}

fn contains_token(hay: &str, tok: &str) -> bool {
    let mut start = 0;
    while let Some(i) = hay[start..].find(tok) {
        let at = start + i;
        let end = at + tok.len();
        let prev_ok = hay[..at].chars().next_back().map(|c| !(c.is_alphanumeric() || c == '_')).unwrap_or(true);
        let next_ok = hay[end..].chars().next().map(|c| !(c.is_alphanumeric() || c == '_' || c == '-')).unwrap_or(true);
        if prev_ok && next_ok {
            return true;
        }
        start = at + 1;
        while !hay.is_char_boundary(start) {
            start += 1;
        }
    }
    false
}

fn spec_at<'a>(spec: &'a CmdSpec, path: &[u8]) -> (&'a CmdSpec, Vec<String>) {
    let mut cur = spec;
    let mut names = Vec::new();
    for p in path {
        let vis: Vec<&CmdSpec> = cur.subs.iter().filter(|s| !s.has(CmdSetting::Hide)).collect();
        if vis.is_empty() {
            break;
        }
        cur = vis[*p as usize % vis.len()];
        names.push(cur.name.clone());
    }
    (cur, names)
}

fn man_checks(level: &CmdSpec, inherited_globals: &[&ArgSpec], page: &str) -> Option<(&'static str, String, String)> {
    let plain = roff_unescape(page);
    for a in level.args.iter().chain(inherited_globals.iter().copied()) {
        if a.hide {
            // hidden: neither its spellings nor its help tag may appear
            let mut toks: Vec<String> = Vec::new();
            if let Some(l) = &a.long {
                toks.push(format!("--{l}"));
            }
            toks.extend(a.value_names.iter().cloned());
            if let Some(h) = &a.help {
                if let Some(t) = h.split_whitespace().find(|w| w.starts_with("hlp")) {
                    toks.push(t.to_string());
                }
            }
            for t in toks {
                if contains_token(&plain, &t) {
                    return Some(("hidden-shown", "argument".into(), format!("hidden argument {} shows up in the man page through {t:?}", a.id)));
                }
            }
            continue;
        }
        let found = if a.is_positional() {
            let names: Vec<String> = if a.value_names.is_empty() { vec![a.id.clone()] } else { a.value_names.clone() };
            names.iter().any(|n| contains_token(&plain, n))
        } else {
            a.long.as_ref().map(|l| contains_token(&plain, &format!("--{l}"))).unwrap_or(false) || a.short.map(|s| plain.contains(&format!("-{s}"))).unwrap_or(false)
        };
        if !found {
            return Some(("visible-missing", if a.is_positional() { "positional".into() } else { "option".into() }, format!("argument {} is not named in the man page", a.id)));
        }
        // named in the listing too, not only in the SYNOPSIS: an entry line right after a `.TP`
        let lines: Vec<&str> = plain.lines().collect();
        let has_entry = lines.windows(2).any(|w| {
            if w[0].trim() != ".TP" {
                return false;
            }
            let l = w[1];
            if a.is_positional() {
                let names: Vec<String> = if a.value_names.is_empty() { vec![a.id.clone()] } else { a.value_names.clone() };
                names.iter().any(|n| l.starts_with(&format!("[{n}")) || l.starts_with(&format!("<{n}")))
            } else {
                a.long.as_ref().map(|x| contains_token(l, &format!("--{x}"))).unwrap_or(false) || a.short.map(|c| l.starts_with(&format!("-{c}"))).unwrap_or(false)
            }
        });
        if !has_entry {
            return Some(("visible-missing", if a.is_positional() { "positional-entry".into() } else { "option-entry".into() }, format!("argument {} appears in the page but has no entry of its own (no `.TP` item) in any options section", a.id)));
        }
        // its help text is part of that entry
        if a.long_help.is_none() && !a.hide_short_help {
            if let Some(tag) = a.help.as_ref().and_then(|h| h.split_whitespace().find(|w| w.starts_with("hlp") && w.len() == 6 && w[3..].chars().all(|c| c.is_ascii_digit()))) {
                if !plain.contains(tag) {
                    return Some(("visible-missing", "help-text".into(), format!("the help text of argument {} ({tag}) is missing from the page", a.id)));
                }
            }
        }
    }
    for s in &level.subs {
        // `<parent>-<name>(<section>)`: the section may have been overridden through the Man builder
        let tag = format!("-{}(", s.name);
        let listed = plain.lines().any(|l| l.ends_with(')') && l.rfind(&tag).map(|i| !l[i + tag.len()..l.len() - 1].contains(['(', ' '])).unwrap_or(false));
        if s.has(CmdSetting::Hide) {
            if listed {
                return Some(("hidden-shown", "subcommand".into(), format!("hidden subcommand {} is listed in the man page", s.name)));
            }
        } else if !listed {
            return Some(("visible-missing", "subcommand".into(), format!("subcommand {} is not listed in the man page", s.name)));
        }
    }
    None
}

// ------------------------------------------------------------------------------------------
// completion script coverage

fn script_has_long(g: Gen, script: &str, l: &str) -> bool {
    match g {
        Gen::Fish => contains_token(script, &format!("-l {l}")),
        _ => contains_token(script, &format!("--{l}")),
    }
}

fn script_has_short(g: Gen, script: &str, s: char) -> bool {
    let follows_ok = |hay: &str, pat: &str| -> bool {
        let mut start = 0;
        while let Some(i) = hay[start..].find(pat) {
            let end = start + i + pat.len();
            if hay[end..].chars().next().map(|c| !(c.is_alphanumeric() || c == '_' || c == '-')).unwrap_or(true) {
                return true;
            }
            start = start + i + 1;
            while !hay.is_char_boundary(start) {
                start += 1;
            }
        }
        false
    };
    match g {
        Gen::Bash => script.lines().filter(|l| l.trim_start().starts_with("opts=\"")).any(|l| l.split(|c: char| c == ' ' || c == '"').any(|w| w == format!("-{s}"))),
        Gen::Zsh => follows_ok(script, &format!("'-{s}")) || follows_ok(script, &format!("'*-{s}")) || follows_ok(script, &format!(")-{s}")) || follows_ok(script, &format!(")*-{s}")),
        Gen::Fish => follows_ok(script, &format!("-s {s}")),
        Gen::PowerShell => script.contains(&format!("'-{s}'")),
        Gen::Elvish => script.contains(&format!("cand -{s} ")),
        Gen::Nushell => script.contains(&format!("(-{s})")) || script.lines().any(|l| l.trim_start().strip_prefix(&format!("-{s}")).map(|r| r.is_empty() || r.starts_with(':') || r.starts_with(' ')).unwrap_or(false)),
        Gen::Man => false,
    }
}

/// Turn one level without subcommands and with >= 2 positionals into `<multi>... <single>`: every positional
/// required, the second-to-last taking `1..` values without a terminator, the last a plain single value
/// with declared possible values.
fn low_index_multiple(spec: &mut CmdSpec, salt: usize) -> bool {
    fn levels<'a>(c: &'a mut CmdSpec, out: &mut Vec<&'a mut CmdSpec>) {
        let ok = c.subs.is_empty() && c.args.iter().filter(|a| a.is_positional()).count() >= 2 && !c.has(CmdSetting::AllowMissingPositional);
        if ok {
            out.push(c);
        } else {
            for s in c.subs.iter_mut() {
                levels(s, out);
            }
        }
    }
    let mut ls = Vec::new();
    levels(spec, &mut ls);
    if ls.is_empty() {
        return false;
    }
    let k = salt % ls.len();
    let c = ls.swap_remove(k);
    let pos: Vec<usize> = c.args.iter().enumerate().filter(|(_, a)| a.is_positional()).map(|(i, _)| i).collect();
    let n = pos.len();
    for (j, i) in pos.iter().enumerate() {
        let a = &mut c.args[*i];
        a.required = true;
        a.default_values.clear();
        a.last = false;
        a.trailing_var_arg = false;
        a.value_terminator = None;
        a.action = Action::Set;
        a.num_args = if j + 2 == n { Some((1, None)) } else { None };
        if j + 1 == n {
            let tag = a.id.trim_start_matches('p').to_string();
            if !matches!(a.parser, ValParser::Possible(_)) {
                a.parser = ValParser::Possible(vec![
                    PvSpec { name: format!("pvl{tag}a"), aliases: vec![], hide: false, help: None },
                    PvSpec { name: format!("pvl{tag}b"), aliases: vec![], hide: false, help: if salt % 2 == 0 { Some("second".into()) } else { None } },
                ]);
            }
        }
    }
    true
}

fn script_checks(g: Gen, spec: &CmdSpec, script: &str) -> Vec<(&'static str, String, String)> {
    let mut bad: Vec<(&'static str, String, String)> = Vec::new();
    spec.walk(
        &mut |c, depth| {
            if depth > 2 {
                return;
            }
            for a in c.args.iter().filter(|a| !a.hide && !a.is_positional()) {
                let mut longs: Vec<&String> = a.long.iter().collect();
                longs.extend(a.visible_aliases.iter());
                for l in longs {
                    if !script_has_long(g, script, l) {
                        bad.push(("coverage-missing", format!("{}/long", g.name()), format!("long option --{l} of `{}` is not mentioned in the {} script", c.name, g.name())));
                    }
                }
                for s in a.short.iter() {
                    if !script_has_short(g, script, *s) {
                        bad.push(("coverage-missing", format!("{}/short", g.name()), format!("short option -{s} of `{}` is not mentioned in the {} script", c.name, g.name())));
                    }
                }
                for s in a.visible_short_aliases.iter() {
                    if !script_has_short(g, script, *s) {
                        // narrow class of a listed finding: the alias belongs to an argument that has no short of its own
                        let site = if a.short.is_none() { "visible-short-alias-without-short".to_string() } else { format!("{}/short-alias", g.name()) };
                        bad.push(("coverage-missing", site, format!("visible short alias -{s} of `{}` ({}) is not mentioned in the {} script", c.name, a.id, g.name())));
                    }
                }
                if matches!(g, Gen::Bash | Gen::Zsh | Gen::Fish | Gen::Nushell) && !a.hide_possible_values {
                    if let ValParser::Possible(pvs) = &a.parser {
                        for p in pvs.iter().filter(|p| !p.hide) {
                            if !contains_token(script, &p.name) {
                                let (min, _) = a.value_range();
                                let site = if g == Gen::Zsh && min == 0 { "zsh/possible-value-optional-value".to_string() } else { format!("{}/possible-value", g.name()) };
                                bad.push(("coverage-missing", site, format!("possible value {} of {} (`{}`) is not mentioned in the {} script", p.name, a.id, c.name, g.name())));
                            }
                        }
                    }
                }
            }
            // possible values of positionals: bash lists them among the words of the level; zsh writes a
            // value spec for every positional except a multi-valued or `last` one that follows a catch-all,
            // so a plain single-valued positional is always covered
            if matches!(g, Gen::Bash | Gen::Zsh) {
                for a in c.args.iter().filter(|a| !a.hide && a.is_positional() && !a.hide_possible_values) {
                    let single = matches!(a.action, Action::Set) && !a.last && matches!(a.value_range(), (_, Some(m)) if m <= 1);
                    if g == Gen::Zsh && !single {
                        continue;
                    }
                    if let ValParser::Possible(pvs) = &a.parser {
                        for p in pvs.iter().filter(|p| !p.hide) {
                            if !contains_token(script, &p.name) {
                                bad.push(("coverage-missing", format!("{}/positional-possible-value", g.name()), format!("possible value {} of the positional {} (`{}`) is not mentioned in the {} script", p.name, a.id, c.name, g.name())));
                            }
                        }
                    }
                }
            }
            for s in c.subs.iter().filter(|s| !s.has(CmdSetting::Hide)) {
                let mut names = vec![&s.name];
                names.extend(s.visible_aliases.iter());
                for (i, n) in names.iter().enumerate() {
                    if !contains_token(script, n) {
                        bad.push(("coverage-missing", format!("{}/{}", g.name(), if i == 0 { "subcommand" } else { "subcommand-alias" }), format!("subcommand spelling `{n}` under `{}` is not mentioned in the {} script", c.name, g.name())));
                    }
                }
            }
        },
        0,
    );
    bad.dedup_by(|a, b| a.0 == b.0 && a.1 == b.1);
    bad
}

/// The block of the script that belongs to one subcommand level (elvish, powershell, nushell
/// have one literal block per level, keyed by the path of names).
/// zsh: the `_arguments` block of the level addressed by `path`, found by walking the nested
/// `case $state in` / `case $line[N] in` structure arm by arm (never by searching for the name alone).
fn zsh_level_block<'a>(script: &'a str, path: &[String]) -> Option<&'a str> {
    const HEAD: &str = "_arguments \"${_arguments_options[@]}\" : \\\n";
    const TAIL: &str = "\n&& ret=0";
    let start = script.find(HEAD)? + HEAD.len() - 1;
    let mut block = (start, start + script[start..].find(TAIL)?);
    for name in &path[1..] {
        // scan the lines after the current block: the arms of this level sit at case-depth 2
        let mut depth = 0i32;
        let mut pos = block.1 + TAIL.len();
        let mut found = None;
        let arm = format!("({name})");
        while pos < script.len() {
            let eol = script[pos..].find('\n').map(|i| pos + i).unwrap_or(script.len());
            let line = script[pos..eol].trim();
            if line.starts_with("case ") && line.ends_with(" in") {
                depth += 1;
            } else if line == "esac" {
                depth -= 1;
                if depth <= 0 {
                    break;
                }
            } else if depth == 2 && line == arm && script[(eol + 1).min(script.len())..].starts_with(HEAD) {
                let st = eol + 1 + HEAD.len() - 1;
                found = Some((st, st + script[st..].find(TAIL)?));
                break;
            }
            pos = eol + 1;
        }
        block = found?;
    }
    Some(&script[block.0..block.1])
}

/// zsh: the `commands=( .. )` array of the `_<path>_commands` function of a level.
fn zsh_commands_array<'a>(script: &'a str, path: &[String]) -> Option<&'a str> {
    let open = format!("\n_{}_commands() {{\n    local commands; commands=(", path.join("__"));
    let start = script.find(&open)? + open.len();
    let end = start + script[start..].find("\n    _describe -t commands")?;
    Some(&script[start..end])
}

fn level_block<'a>(g: Gen, script: &'a str, path: &[String]) -> Option<&'a str> {
    if g == Gen::Zsh {
        return zsh_level_block(script, path);
    }
    let (open, close): (String, &str) = match g {
        Gen::Elvish => (format!("&'{}'= {{", path.join(";")), "\n        }"),
        Gen::PowerShell => (format!("'{}' {{", path.join(";")), "break"),
        Gen::Nushell => (
            if path.len() == 1 { format!("export extern {} [", path[0]) } else { format!("export extern \"{}\" [", path.join(" ")) },
            "\n  ]",
        ),
        _ => return None,
    };
    let start = script.find(&open)? + open.len();
    let end = script[start..].find(close).map(|i| start + i).unwrap_or(script.len());
    Some(&script[start..end])
}

fn zsh_escape_name(n: &str) -> String {
    n.replace('\\', "\\\\").replace('\'', "'\\''").replace('[', "\\[").replace(']', "\\]").replace(':', "\\:").replace('$', "\\$").replace('`', "\\`")
}

/// Level-scoped coverage: what belongs to a level is in that level's block, and no option of
/// another level is (names are unique across the tree, inherited globals excepted).
fn level_scoped_checks(g: Gen, spec: &CmdSpec, script: &str) -> Vec<(&'static str, String, String)> {
    let mut bad = Vec::new();
    if g == Gen::Fish {
        // fish: one `complete` line per item, guarded by a condition that names the level
        let lines: Vec<&str> = script.lines().filter(|l| l.starts_with("complete ")).collect();
        let has = |long: &str, cond: &str| lines.iter().any(|l| contains_token(l, &format!("-l {long}")) && l.contains(cond));
        for a in spec.args.iter().filter(|a| !a.hide && !a.is_positional()) {
            if let Some(l) = &a.long {
                // without subcommands the generator writes unguarded lines
                let guard = if spec.subs.is_empty() { "" } else { "_needs_command" };
                if !has(l, guard) {
                    bad.push(("coverage-missing", "fish/long-at-level".to_string(), format!("--{l} of the root has no `complete` line guarded by the root condition")));
                }
            }
        }
        for sub in spec.subs.iter().filter(|x| !x.has(CmdSetting::Hide)) {
            for a in sub.args.iter().filter(|a| !a.hide && !a.is_positional() && !a.global) {
                if let Some(l) = &a.long {
                    if !has(l, &format!("_using_subcommand {}", sub.name)) {
                        bad.push(("coverage-missing", "fish/long-at-level".to_string(), format!("--{l} of `{}` has no `complete` line guarded by `using_subcommand {}`", sub.name, sub.name)));
                    }
                    if has(l, "_needs_command") {
                        bad.push(("coverage-foreign", "fish/long-of-other-level".to_string(), format!("--{l} belongs to `{}` but is offered under the root condition", sub.name)));
                    }
                }
            }
        }
        bad.dedup_by(|a, b| a.0 == b.0 && a.1 == b.1);
        return bad;
    }
    if !matches!(g, Gen::Elvish | Gen::PowerShell | Gen::Nushell | Gen::Zsh) {
        return bad;
    }
    // all (owner level name, long spelling) pairs of the tree
    let mut all_longs: Vec<(String, String, bool)> = Vec::new();
    spec.walk(
        &mut |c, _| {
            for a in c.args.iter().filter(|a| !a.is_positional()) {
                if let Some(l) = &a.long {
                    all_longs.push((c.name.clone(), l.clone(), a.global));
                }
            }
        },
        0,
    );
    fn rec<'a>(g: Gen, script: &str, c: &'a CmdSpec, path: &mut Vec<String>, globals: &mut Vec<&'a ArgSpec>, all_longs: &[(String, String, bool)], bad: &mut Vec<(&'static str, String, String)>, depth: usize) {
        if depth > 2 {
            return;
        }
        match level_block(g, script, path) {
            None => bad.push(("coverage-missing", format!("{}/level-block", g.name()), format!("no block for level `{}` in the {} script", path.join(" "), g.name()))),
            Some(block) => {
                for a in c.args.iter().chain(globals.iter().copied()).filter(|a| !a.hide && !a.is_positional()) {
                    if let Some(l) = &a.long {
                        if !contains_token(block, &format!("--{l}")) {
                            bad.push(("coverage-missing", format!("{}/long-at-level", g.name()), format!("--{l} is not mentioned in the block of level `{}` of the {} script", path.join(" "), g.name())));
                        }
                    }
                }
                if g == Gen::Zsh && c.subs.iter().any(|x| !x.has(CmdSetting::Hide)) {
                    // zsh names the subcommands of a level in that level's `_.._commands` function
                    match zsh_commands_array(script, path) {
                        None => bad.push(("coverage-missing", "zsh/commands-function".to_string(), format!("no `_{}_commands` function in the zsh script", path.join("__")))),
                        Some(arr) => {
                            for sub in c.subs.iter().filter(|x| !x.has(CmdSetting::Hide)) {
                                for n in std::iter::once(&sub.name).chain(sub.visible_aliases.iter()) {
                                    if !arr.contains(&format!("'{}:", zsh_escape_name(n))) {
                                        bad.push(("coverage-missing", "zsh/subcommand-at-level".to_string(), format!("subcommand name `{n}` is not an entry of `_{}_commands`", path.join("__"))));
                                    }
                                }
                            }
                        }
                    }
                }
                for sub in c.subs.iter().filter(|x| !x.has(CmdSetting::Hide)) {
                    if g != Gen::Nushell && g != Gen::Zsh && !contains_token(block, &sub.name) {
                        bad.push(("coverage-missing", format!("{}/subcommand-at-level", g.name()), format!("subcommand `{}` is not mentioned in the block of level `{}` of the {} script", sub.name, path.join(" "), g.name())));
                    }
                }
                for (owner, l, is_global) in all_longs {
                    let own = c.args.iter().chain(globals.iter().copied()).any(|a| a.long.as_deref() == Some(l.as_str()));
                    if !own && !*is_global && *owner != c.name && contains_token(block, &format!("--{l}")) {
                        bad.push(("coverage-foreign", format!("{}/long-of-other-level", g.name()), format!("--{l} belongs to `{owner}` but is mentioned in the block of level `{}` of the {} script", path.join(" "), g.name())));
                    }
                }
            }
        }
        let n_glob = globals.len();
        for a in c.args.iter().filter(|a| a.global) {
            globals.push(a);
        }
        for sub in c.subs.iter().filter(|x| !x.has(CmdSetting::Hide)) {
            path.push(sub.name.clone());
            rec(g, script, sub, path, globals, all_longs, bad, depth + 1);
            path.pop();
        }
        globals.truncate(n_glob);
    }
    let mut path = vec![spec.name.clone()];
    let mut globals = Vec::new();
    rec(g, script, spec, &mut path, &mut globals, &all_longs, &mut bad, 0);
    bad.dedup_by(|a, b| a.0 == b.0 && a.1 == b.1);
    bad
}

// ------------------------------------------------------------------------------------------
// bash process

fn sh_quote(s: &str) -> String {
    format!("'{}'", s.replace('\'', "'\\''"))
}

fn run_bash(input: &str, args: &[&str]) -> Result<(i32, String, String), String> {
    let mut c = std::process::Command::new("/usr/bin/bash");
    c.env_clear().env("PATH", "/usr/bin:/bin").env("LANG", "C").env("LC_ALL", "C");
    c.arg("--noprofile").arg("--norc").args(args);
    c.stdin(Stdio::piped()).stdout(Stdio::piped()).stderr(Stdio::piped());
    let mut child = c.spawn().map_err(|e| format!("cannot start bash: {e}"))?;
    let mut si = child.stdin.take().unwrap();
    let data = input.as_bytes().to_vec();
    let wt = std::thread::spawn(move || {
        let _ = si.write_all(&data);
    });
    let mut so = child.stdout.take().unwrap();
    let mut se = child.stderr.take().unwrap();
    let (tx, rx) = std::sync::mpsc::channel();
    std::thread::spawn(move || {
        let mut o = String::new();
        let mut e = String::new();
        let _ = so.read_to_string(&mut o);
        let _ = se.read_to_string(&mut e);
        let _ = tx.send((o, e));
    });
    let r = rx.recv_timeout(std::time::Duration::from_secs(20));
    let _ = wt.join();
    match r {
        Ok((o, e)) => {
            let st = child.wait().map_err(|e| e.to_string())?;
            Ok((st.code().unwrap_or(-1), o, e))
        }
        Err(_) => {
            let _ = child.kill();
            let _ = child.wait();
            Err("bash did not finish within 20 s".into())
        }
    }
}

struct LevelNames {
    /// spellings every correct script must offer
    visible: Vec<String>,
    /// every spelling that legitimately belongs to the level (hidden, aliases, auto-generated)
    all: Vec<String>,
    /// visible short aliases of arguments that have no short of their own (listed finding)
    alias_wo_short: Vec<String>,
}

fn level_names(c: &CmdSpec, inherited_globals: &[&ArgSpec], root_has_version: bool) -> LevelNames {
    let mut visible = Vec::new();
    let mut all = Vec::new();
    let mut alias_wo_short = Vec::new();
    for a in c.args.iter().chain(inherited_globals.iter().copied()) {
        if a.is_positional() {
            continue;
        }
        if a.short.is_none() && !a.hide {
            alias_wo_short.extend(a.visible_short_aliases.iter().map(|s| format!("-{s}")));
        }
        let mut v = Vec::new();
        let mut h = Vec::new();
        if let Some(l) = &a.long {
            v.push(format!("--{l}"));
        }
        if let Some(s) = a.short {
            v.push(format!("-{s}"));
        }
        v.extend(a.visible_aliases.iter().map(|l| format!("--{l}")));
        v.extend(a.visible_short_aliases.iter().map(|s| format!("-{s}")));
        h.extend(a.aliases.iter().map(|l| format!("--{l}")));
        h.extend(a.short_aliases.iter().map(|s| format!("-{s}")));
        if !a.hide {
            visible.extend(v.iter().cloned());
        }
        all.extend(v);
        all.extend(h);
    }
    for s in &c.subs {
        if !s.has(CmdSetting::Hide) {
            visible.push(s.name.clone());
            visible.extend(s.visible_aliases.iter().cloned());
        }
        all.extend(s.all_names());
    }
    all.extend(["--help", "-h", "help"].iter().map(|s| s.to_string()));
    if root_has_version || c.version.is_some() {
        all.extend(["--version", "-V"].iter().map(|s| s.to_string()));
    }
    LevelNames { visible, all, alias_wo_short }
}

fn universe(spec: &CmdSpec) -> Vec<String> {
    let mut u = Vec::new();
    spec.walk(
        &mut |c, _| {
            let n = level_names(c, &[], true);
            u.extend(n.all);
        },
        0,
    );
    u.sort();
    u.dedup();
    u
}

struct PreparedQuery {
    words: Vec<String>,
    partial: String,
    must: Vec<String>,
    may: Vec<String>,
    alias_wo_short: Vec<String>,
}

fn prepare_queries(spec: &CmdSpec, bin: &str, qs: &[BashQuery]) -> Vec<PreparedQuery> {
    let mut out = Vec::new();
    for q in qs {
        let mut words = vec![bin.to_string()];
        let mut cur = spec;
        let mut globals: Vec<&ArgSpec> = Vec::new();
        let mut ok = true;
        for (si, ai) in &q.path {
            let vis: Vec<&CmdSpec> = cur.subs.iter().filter(|s| !s.has(CmdSetting::Hide)).collect();
            if vis.is_empty() {
                ok = false;
                break;
            }
            let s = vis[*si as usize % vis.len()];
            let mut spell = vec![s.name.clone()];
            spell.extend(s.visible_aliases.iter().cloned());
            words.push(spell[*ai as usize % spell.len()].clone());
            for a in cur.args.iter().filter(|a| a.global) {
                globals.push(a);
            }
            cur = s;
        }
        if !ok {
            continue;
        }
        let names = level_names(cur, &globals, spec.version.is_some());
        if names.visible.is_empty() {
            continue;
        }
        let target = &names.visible[q.pick as usize % names.visible.len()];
        let chars: Vec<char> = target.chars().collect();
        if chars.len() < 2 {
            continue;
        }
        let cut = 1 + (q.cut as usize % (chars.len() - 1));
        let partial: String = chars[..cut].iter().collect();
        // a complete subcommand spelling under the cursor already addresses the next level
        if cur.subs.iter().any(|s| s.all_names().iter().any(|n| *n == partial)) || partial == "help" {
            continue;
        }
        let must: Vec<String> = names.visible.iter().filter(|n| n.starts_with(&partial)).cloned().collect();
        let may: Vec<String> = names.all.iter().filter(|n| n.starts_with(&partial)).cloned().collect();
        out.push(PreparedQuery { words, partial, must, may, alias_wo_short: names.alias_wo_short.clone() });
    }
    out
}

// ------------------------------------------------------------------------------------------

fn has_auto_help_subcommand(spec: &CmdSpec) -> bool {
    let mut f = false;
    spec.walk(&mut |c, _| f |= !c.subs.is_empty() && !c.has(CmdSetting::DisableHelpSubcommand), 0);
    f
}

fn has_dunder(spec: &CmdSpec) -> bool {
    let mut f = false;
    spec.walk(&mut |c, _| f |= c.name.contains("__") || c.visible_aliases.iter().any(|a| a.contains("__")), 0);
    f
}

impl Engine for SinkSim {
    type Sc = SinkSc;
    fn prop(&self) -> &'static str {
        match self.0 {
            Which::C16 => "C16",
            Which::C19 => "C19",
        }
    }
    fn meta(&self) -> Meta {
        match self.0 {
            Which::C16 => Meta {
                engine: "sinksim",
                level: "fault_enumeration",
                rule: "a scenario is a command tree (depth <= 3, hyphenated/underscored/non-ASCII names, aliases, hidden items, value hints, possible values, adversarial text) x one of the six ahead-of-time generators x a sink fault plan (short writes, EINTR, chunk caps 1..4096, Ok(0), WouldBlock, BrokenPipe, StorageFull at a byte offset, flush error) x a command history (fresh, cloned, pre-built, previously parsed). For scripts with <= 400 write calls and the `enumerate` flag, EVERY write-call index is additionally faulted once with EINTR, a 1-byte short write and a hard error. Bash scenarios also source the delivered script in a controlled `bash --noprofile --norc` process (cleared environment) and issue completion queries (word path + partial word). Non-trivial = >= 1 sink fault fired or >= 1 bash query answered; distinct = distinct scenario hash. Added during the build phase: generate_to on a real scratch directory (missing / file / pre-existing, another binary name), level-scoped coverage for every shell, conflicts, required options, possible values of positionals (bash, zsh), low-index multiple positionals without a terminator",
                real_components: &["clap_complete::aot::generate + the five shell generators", "clap_complete_nushell::Nushell", "Command::build / set_bin_name", "GNU bash 5.2 (bash -n and execution of the generated function)"],
                stub_components: &["FaultyWriter (the &mut dyn Write sink)", "COMP_WORDS/COMP_CWORD set by the harness instead of readline"],
                workload_only_clauses: &["coverage of options/values/subcommands is a function of the tree: checked on the bytes the sink delivered, but the sink is not what it depends on", "only bash is installed: the other five scripts are checked as text, not executed"],
                assumptions: &["a hard write error makes clap_complete::generate panic with `failed to write completion file`: documented behaviour, accepted", "bash COMPREPLY is compared as lower bound (visible names of the level extending the word) and upper bound (any name of the level incl. hidden/alias/auto-generated) within the universe of all spellings of the tree; positional placeholders are tolerated", "possible values are only required of the generators that emit them at all (bash, zsh, fish, nushell)"],
                abort_is_violation: true,
            },
            Which::C19 => Meta {
                engine: "sinksim",
                level: "fault_enumeration",
                rule: "a scenario is a command tree with adversarial text in every slot (leading `.`/`'`, backslashes, newlines, empty, quotes, roff escapes) x a man page target (root or a subcommand, as clap_mangen::generate_to walks them) x a sink fault plan x a command history. Man::render writes through the fault-injecting sink; for pages with <= 400 write calls and the `enumerate` flag EVERY write-call index is faulted once with EINTR, a 1-byte short write and a hard error. Non-trivial = >= 1 sink fault fired; distinct = distinct scenario hash. Added during the build phase: adversarial version / headings / Man builder overrides, late subcommand, page of the generated help subcommand, clap_mangen::generate_to on a real scratch directory, required and doubly mode-hidden options, shared display orders",
                real_components: &["clap_mangen::Man::new / render", "clap_mangen::render", "roff 0.2 (Roff::to_writer)", "Command::build"],
                stub_components: &["FaultyWriter (the &mut dyn Write sink)"],
                workload_only_clauses: &["coverage, hidden-item absence and the control-line clause are functions of the tree; they are checked on the delivered bytes but do not depend on the sink"],
                assumptions: &["the generator's request vocabulary is {ie, el, TH, SH, TP, br, RS, RE, IP, PP}", "the control-line multiset is compared with that of a twin tree whose text slots hold innocuous text with the same emptiness, line count and blank-line positions"],
                abort_is_violation: true,
            },
        }
    }
    fn runs(&self, tier: Tier) -> u64 {
        match (self.0, tier) {
            (Which::C16, Tier::Quick) => 32_000,
            (Which::C16, Tier::Thorough) => 800_000,
            (Which::C19, Tier::Quick) => 150_000,
            (Which::C19, Tier::Thorough) => 6_000_000,
        }
    }
    fn heartbeat(&self) -> u64 {
        16
    }

    fn gen(&self, rng: &mut Rng, _tier: Tier) -> SinkSc {
        let mut cfg = GenCfg::generator_heavy();
        let gen = match self.0 {
            Which::C19 => Gen::Man,
            Which::C16 => *rng.pick(&[Gen::Bash, Gen::Bash, Gen::Bash, Gen::Zsh, Gen::Fish, Gen::PowerShell, Gen::Elvish, Gen::Nushell]),
        };
        if self.0 == Which::C16 {
            cfg.allow_double_underscore = rng.chance(1, 40);
            cfg.text = if rng.coin() { crate::gen::TextKind::Plain } else { crate::gen::TextKind::Adversarial };
        }
        let mut spec = gen_tree(rng, &cfg);
        for _ in 0..3 {
            if gate(&spec).is_ok() {
                break;
            }
            spec = gen_tree(rng, &cfg);
        }
        if self.0 == Which::C16 {
            spec.name = (*rng.pick(&["prog", "my-app", "my_app"])).to_string();
            // the tree generator only builds a low-index multiple positional with a value terminator; the
            // generators treat the terminator-less shape differently (zsh: a catch-all after which only
            // single-valued positionals are still written), so some trees get that shape here
            if rng.chance(1, 6) {
                let salt = rng.below(1 << 16) as usize;
                let mut t = spec.clone();
                if low_index_multiple(&mut t, salt) && gate(&t).is_ok() {
                    spec = t;
                }
            }
        }
        if self.0 == Which::C19 && rng.chance(1, 3) {
            hostile_control_slots(rng, &mut spec);
        }
        let man_meta: Vec<String> = if self.0 == Which::C19 && rng.chance(1, 4) {
            const META: &[&str] = &["", "1", "8", "MYTOOL", "2026-10-02", "my tool 1.0", "User Commands", "x\n.so /etc/passwd", "a\n'ne 1", "T\n.SH INJECTED", "q \"uoted", "\\", "line\n"];
            // (the section also ends up inside the text of every SUBCOMMANDS entry: kept to one line so that
            // the listing oracle can recognise an entry)
            (0..5).map(|i| if i == 1 { rng.pick(&["1", "8", "3p", "n"]).to_string() } else { rng.pick(META).to_string() }).collect()
        } else {
            Vec::new()
        };
        let plan = gen_plan(rng, 40, 3000, true);
        let mut queries = Vec::new();
        if gen == Gen::Bash {
            for _ in 0..rng.urange(4, 12) {
                let depth = *rng.pick(&[0usize, 1, 1, 2, 2, 2]);
                queries.push(BashQuery {
                    path: (0..depth).map(|_| (rng.below(8) as u8, rng.below(4) as u8)).collect(),
                    pick: rng.below(64) as u16,
                    cut: rng.below(16) as u8,
                });
            }
        }
        SinkSc {
            man_path: (0..rng.usize(3)).map(|_| rng.below(4) as u8).collect(),
            enumerate: rng.chance(1, 6),
            prior_argv: if rng.chance(1, 3) { gen_argv(rng, &spec, 5) } else { vec![] },
            spec,
            gen,
            plan,
            queries,
            fs: if rng.chance(1, 4) { rng.urange(1, 4) as u8 } else { 0 },
            man_meta,
        }
    }

    fn exec(&self, sc: &SinkSc, log: &mut Log) -> Outcome {
        let mut out = Outcome::default();
        if let Err(why) = gate(&sc.spec) {
            out.count("misc.specs_rejected_by_gate");
            ev!(log, "gate rejected: {why}");
            return out;
        }
        let r = catch(|| exec_sink(self.0, sc, log, &mut out));
        if let Err(p) = r {
            if panic_in_harness(&p) {
                out.violate("HARNESS-PANIC", short_file(&p), format!("{} at {}", p.msg, p.loc));
            } else {
                out.violate("panic", short_file(&p), format!("{} at {}", p.msg, p.loc));
            }
        }
        out
    }

    fn shrink(&self, sc: &SinkSc) -> Vec<SinkSc> {
        let mut c = Vec::new();
        if sc.enumerate {
            let mut s = sc.clone();
            s.enumerate = false;
            c.push(s);
        }
        if !sc.prior_argv.is_empty() {
            let mut s = sc.clone();
            s.prior_argv.clear();
            c.push(s);
        }
        if !sc.man_path.is_empty() {
            let mut s = sc.clone();
            s.man_path.pop();
            c.push(s);
        }
        if sc.fs != 0 {
            let mut s = sc.clone();
            s.fs = 0;
            c.push(s);
        }
        if !sc.man_meta.is_empty() {
            let mut s = sc.clone();
            s.man_meta.clear();
            c.push(s);
            for i in 0..5 {
                if sc.man_meta[i] != "1" {
                    let mut s = sc.clone();
                    s.man_meta[i] = "1".into();
                    c.push(s);
                }
            }
        }
        for i in 0..sc.queries.len() {
            let mut s = sc.clone();
            s.queries.remove(i);
            c.push(s);
        }
        for q in shrink_plan(&sc.plan) {
            let mut s = sc.clone();
            s.plan = q;
            c.push(s);
        }
        for sp in shrink_spec(&sc.spec) {
            let mut s = sc.clone();
            s.spec = sp;
            c.push(s);
        }
        c
    }

    fn fixed(&self) -> Vec<(String, SinkSc)> {
        vec![]
    }
}

fn exec_sink(which: Which, sc: &SinkSc, log: &mut Log, out: &mut Outcome) {
    let g = if which == Which::C19 { Gen::Man } else { sc.gen };
    if which == Which::C16 && g == Gen::Man {
        return;
    }
    let bin = sc.spec.name.clone();
    MAN_META.with(|mm| *mm.borrow_mut() = if g == Gen::Man { sc.man_meta.clone() } else { Vec::new() });
    let (level, man_names) = if g == Gen::Man { spec_at(&sc.spec, &sc.man_path) } else { (&sc.spec, vec![]) };
    let mut shape = ShapeHasher::new();
    shape.add(sc.spec.feature_bits());
    shape.add_str(g.name());
    out.count_dyn(format!("op.generate_{}", g.name()));

    // ---- reference: fresh command, perfect sink
    let perfect = FaultPlan::perfect();
    let mut fresh = build_cmd(&sc.spec);
    let (r0, _, calls0, _) = generate_with(g, &mut fresh, &bin, &man_names, &perfect);
    out.steps += 1;
    let reference = match r0 {
        GenOut::Ok(b) => b,
        GenOut::Err(e, _) => {
            out.violate("generator-error-on-perfect-sink", g.name(), format!("the generator returned an error on a perfect sink: {e}"));
            return;
        }
        GenOut::Panic(p, _) => {
            let site = if g == Gen::Bash && has_dunder(&sc.spec) { "bash/name-contains-double-underscore".to_string() } else { format!("{}/{}", g.name(), short_file(&p)) };
            out.violate("generate-panic", site, format!("{} generator panicked on a perfect sink: {} at {}", g.name(), p.msg, p.loc));
            return;
        }
    };
    let ref_text = String::from_utf8_lossy(&reference).to_string();
    ev!(log, "reference {} bytes calls={calls0} h={:x}", reference.len(), crate::rng::fnv1a(&reference));
    out.comparisons += 1;

    // ---- determinism across command histories (same bin name)
    let variants: Vec<(&'static str, Command)> = {
        let mut v = Vec::new();
        v.push(("clone", build_cmd(&sc.spec).clone()));
        let mut b = build_cmd(&sc.spec);
        if catch(|| b.build()).is_ok() {
            v.push(("pre-built", b));
        }
        if !sc.prior_argv.is_empty() && !sc.spec.has(CmdSetting::Multicall) {
            let mut p = build_cmd(&sc.spec);
            let full = crate::cmdsim::full_argv(&sc.spec, &bin, &sc.prior_argv);
            let _ = catch(|| p.try_get_matches_from_mut(full));
            v.push(("previously-parsed", p));
        }
        let mut twice = build_cmd(&sc.spec);
        let _ = generate_with(g, &mut twice, &bin, &man_names, &perfect);
        v.push(("generated-twice", twice));
        v
    };
    for (name, mut cmd) in variants {
        let (r, _, _, _) = generate_with(g, &mut cmd, &bin, &man_names, &perfect);
        out.steps += 1;
        out.comparisons += 1;
        shape.add_str(name);
        match r {
            GenOut::Ok(b) => {
                if b != reference {
                    // listed finding: a command that has been parsed before carries the lazily built `help`
                    // subcommand (no subtree), and generate()'s build() does not expand it any more
                    let lazy_help = name == "previously-parsed" && has_auto_help_subcommand(&sc.spec);
                    if lazy_help {
                        out.violate("nondeterministic-output", "previously-parsed/lazy-help-subcommand", format!("{} output for a previously parsed command ({} bytes) differs from the output for a fresh one ({} bytes)", g.name(), b.len(), reference.len()));
                        continue;
                    }
                    let at = b.iter().zip(reference.iter()).position(|(x, y)| x != y).unwrap_or(b.len().min(reference.len()));
                    out.violate("nondeterministic-output", format!("{}/{name}", g.name()), format!("{} output for a {name} command differs from the output for a fresh one at byte {at} ({} vs {} bytes): ...{:?} vs ...{:?}", g.name(), b.len(), reference.len(), String::from_utf8_lossy(&b[at.saturating_sub(40)..(at + 60).min(b.len())]), String::from_utf8_lossy(&reference[at.saturating_sub(40)..(at + 60).min(reference.len())])));
                    return;
                }
            }
            GenOut::Err(e, _) => {
                out.violate("nondeterministic-output", format!("{}/{name}", g.name()), format!("error {e} for a {name} command"));
                return;
            }
            GenOut::Panic(p, _) => {
                out.violate("nondeterministic-output", format!("{}/{name}", g.name()), format!("panic for a {name} command where a fresh one succeeds: {} at {}", p.msg, p.loc));
                return;
            }
        }
    }

    // ---- man page of a root whose last subcommand was added after the rest of the tree had been built:
    // the page differs legitimately from the fresh one (the auto-generated `help` subcommand is placed
    // differently), so only the run-time clauses are asserted: it renders, and names every visible item
    if g == Gen::Man && man_names.is_empty() && !sc.spec.subs.is_empty() {
        let mut early = sc.spec.clone();
        let late = early.subs.pop().unwrap();
        let mut c = build_cmd(&early);
        if catch(|| c.build()).is_ok() {
            let mut c = c.subcommand(build_cmd(&late));
            let (r, _, _, _) = generate_with(g, &mut c, &bin, &man_names, &perfect);
            out.steps += 1;
            out.comparisons += 1;
            out.count("op.man_after_late_subcommand");
            shape.add_str("late-subcommand");
            match r {
                GenOut::Ok(b) => {
                    let t = String::from_utf8_lossy(&b).to_string();
                    if let Some((clause, site, d)) = man_checks(level, &[], &t) {
                        out.violate(clause, format!("late-subcommand/{site}"), format!("man page of `{}` whose last subcommand was added after build(): {d}\n{}", level.name, crate::cmdsim::safe_slice(&t, 0, 1500)));
                        return;
                    }
                }
                GenOut::Err(e, _) => {
                    out.violate("generator-error-on-perfect-sink", "man/late-subcommand", format!("error {e} for a command whose last subcommand was added after build()"));
                    return;
                }
                GenOut::Panic(p, _) => {
                    out.violate("generate-panic", "man/late-subcommand", format!("Man::render panicked for a command whose last subcommand was added after build(): {} at {}", p.msg, p.loc));
                    return;
                }
            }
        }
    }

    // ---- the page of the auto-generated `help` subcommand (a copy of the tree): hidden subcommands stay out
    if g == Gen::Man && man_names.is_empty() && !sc.spec.subs.is_empty() && !sc.spec.has(CmdSetting::DisableHelpSubcommand) && !sc.spec.subs.iter().any(|s| s.name == "help") {
        let page = catch(|| {
            let mut root = build_cmd(&sc.spec);
            root.build();
            root.find_subcommand("help").cloned().map(|h| {
                let mut v = Vec::new();
                let _ = new_man(h).render(&mut v);
                String::from_utf8_lossy(&v).to_string()
            })
        });
        out.steps += 1;
        match page {
            Err(p) => {
                out.violate("generate-panic", "man/help-subcommand-page", format!("rendering the page of the generated `help` subcommand panicked: {} at {}", p.msg, p.loc));
                return;
            }
            Ok(None) => {}
            Ok(Some(text)) => {
                out.comparisons += 1;
                out.count("op.man_page_of_help_subcommand");
                let plain = roff_unescape(&text);
                for s in &sc.spec.subs {
                    let tag = format!("-{}(", s.name);
                    let listed = plain.lines().any(|l| l.ends_with(')') && l.rfind(&tag).map(|i| !l[i + tag.len()..l.len() - 1].contains(['(', ' '])).unwrap_or(false));
                    if s.has(CmdSetting::Hide) && listed {
                        out.violate("hidden-shown", "help-subcommand-page".to_string(), format!("the man page of the generated `help` subcommand lists the hidden subcommand {}\n{}", s.name, crate::cmdsim::safe_slice(&text, 0, 1200)));
                        return;
                    }
                    if !s.has(CmdSetting::Hide) && !listed {
                        out.violate("visible-missing", "help-subcommand-page".to_string(), format!("the man page of the generated `help` subcommand does not list the subcommand {}\n{}", s.name, crate::cmdsim::safe_slice(&text, 0, 1200)));
                        return;
                    }
                }
            }
        }
    }

    // ---- the file-writing entry points
    if sc.fs != 0 {
        if let Some(v) = fs_entry_point(sc, g, &bin, &reference, log, out) {
            out.violate(v.0, v.1, v.2);
            return;
        }
        shape.add(100 + sc.fs as u64);
    }

    // ---- sink transparency under the scenario's fault plan, plus enumeration
    let mut plans: Vec<FaultPlan> = vec![sc.plan.clone()];
    if sc.enumerate && calls0 <= 400 {
        out.count("misc.fault_enumerated_outputs");
        for idx in 0..calls0 {
            for f in [WFault::Interrupted, WFault::Short(1), WFault::BrokenPipe] {
                plans.push(FaultPlan { cap: None, faults: vec![(idx, f)], full_at: None, flush_error: false });
            }
        }
    }
    for plan in &plans {
        let mut cmd = build_cmd(&sc.spec);
        let (r, fired, _calls, hard) = generate_with(g, &mut cmd, &bin, &man_names, plan);
        out.steps += 1;
        out.comparisons += 1;
        for f in &fired {
            out.count_dyn(format!("fault.{f}"));
            shape.add_str(f);
        }
        if !fired.is_empty() {
            out.nontrivial = true;
        }
        ev!(log, "plan cap={:?} faults={} -> fired={:?} hard={hard}", plan.cap, plan.faults.len(), fired);
        let only_flush = hard && fired.iter().all(|f| *f == "flush_error" || *f == "short_write" || *f == "eintr" || *f == "chunk_cap");
        match r {
            GenOut::Ok(b) => {
                if hard && !only_flush {
                    out.violate("sink-error-swallowed", g.name(), format!("hard sink faults {:?} fired but the generator reported success", fired));
                    return;
                }
                if !hard && b != reference {
                    out.violate("sink-bytes-differ", g.name(), format!("under benign sink faults {:?} the delivered {} bytes differ from the reference {} bytes", fired, b.len(), reference.len()));
                    return;
                }
                if hard && !reference.starts_with(&b) {
                    out.violate("sink-garbage", g.name(), format!("delivered bytes are not a prefix of the reference under {:?}", fired));
                    return;
                }
            }
            GenOut::Err(e, b) => {
                if !hard {
                    out.violate("sink-benign-fault-not-tolerated", g.name(), format!("only benign sink faults fired ({:?}) but the generator returned {e}", fired));
                    return;
                }
                if !reference.starts_with(&b) {
                    out.violate("sink-garbage", g.name(), format!("delivered bytes are not a prefix of the reference under {:?}", fired));
                    return;
                }
            }
            GenOut::Panic(p, b) => {
                let documented = g != Gen::Man && hard && (p.msg.contains("failed to write") || p.msg.contains("Failed to write"));
                if !documented {
                    out.violate(if hard { "panic-on-sink-error" } else { "panic-on-benign-sink-fault" }, g.name(), format!("sink faults {:?}: {} at {}", fired, p.msg, p.loc));
                    return;
                }
                out.count("obs.documented_panic_on_hard_write_error");
                if !reference.starts_with(&b) {
                    out.violate("sink-garbage", g.name(), format!("delivered bytes are not a prefix of the reference under {:?}", fired));
                    return;
                }
            }
        }
    }

    // ---- the individual section renderers of Man go through the same sink contract
    if g == Gen::Man && man_names.is_empty() {
        let man = match catch(|| new_man(build_cmd(&sc.spec))) {
            Ok(m) => m,
            Err(_) => return,
        };
        type Sect = fn(&clap_mangen::Man, &mut dyn Write) -> std::io::Result<()>;
        let mut sections: Vec<(&'static str, Sect)> = vec![
            ("title", |m, w| m.render_title(w)),
            ("name", |m, w| m.render_name_section(w)),
            ("synopsis", |m, w| m.render_synopsis_section(w)),
            ("description", |m, w| m.render_description_section(w)),
            ("options", |m, w| m.render_options_section(w)),
            ("subcommands", |m, w| m.render_subcommands_section(w)),
            ("extra", |m, w| m.render_extra_section(w)),
        ];
        if sc.spec.version.is_some() || sc.spec.long_version.is_some() {
            sections.push(("version", |m, w| m.render_version_section(w)));
        }
        sections.push(("authors", |m, w| m.render_authors_section(w)));
        let mut concat: Vec<u8> = Vec::new();
        for (name, f) in &sections {
            let mut wp = FaultyWriter::new(&perfect);
            let rp = catch(|| f(&man, &mut wp));
            let mut wf = FaultyWriter::new(&sc.plan);
            let rf = catch(|| f(&man, &mut wf));
            out.steps += 1;
            out.comparisons += 1;
            for x in &wf.fired {
                out.count_dyn(format!("fault.{x}"));
            }
            match (rp, rf) {
                (Err(p), _) | (_, Err(p)) => {
                    out.violate("panic-in-section-renderer", format!("man/{name}"), format!("render_{name}_section panicked: {} at {}", p.msg, p.loc));
                    return;
                }
                (Ok(rp), Ok(rf)) => {
                    if rp.is_err() {
                        out.violate("generator-error-on-perfect-sink", format!("man/{name}"), format!("render_{name}_section failed on a perfect sink"));
                        return;
                    }
                    let only_benign = !wf.hard_fired;
                    if only_benign && (rf.is_err() || wf.delivered != wp.delivered) {
                        out.violate("sink-bytes-differ", format!("man/{name}"), format!("render_{name}_section under benign sink faults {:?}: result {:?}, {} of {} bytes delivered", wf.fired, rf.err().map(|e| e.to_string()), wf.delivered.len(), wp.delivered.len()));
                        return;
                    }
                    if !only_benign && rf.is_ok() && wf.fired.iter().any(|f| *f != "flush_error" && *f != "short_write" && *f != "eintr" && *f != "chunk_cap") {
                        out.violate("sink-error-swallowed", format!("man/{name}"), format!("render_{name}_section: hard sink faults {:?} but Ok", wf.fired));
                        return;
                    }
                    if !wp.delivered.starts_with(&wf.delivered) {
                        out.violate("sink-garbage", format!("man/{name}"), format!("render_{name}_section delivered bytes that are not a prefix of the reference"));
                        return;
                    }
                    concat.extend_from_slice(&wp.delivered);
                }
            }
        }
        // every line of the full page comes from one of the section renderers
        let all = String::from_utf8_lossy(&concat).to_string();
        for line in ref_text.lines().filter(|l| l.starts_with(".SH")) {
            if !all.contains(line) {
                out.violate("nondeterministic-output", "man/sections-vs-page", format!("the page has the heading line {line:?} that no section renderer produces"));
                return;
            }
        }
    }

    // ---- content checks on the delivered reference bytes
    if g == Gen::Man {
        let globals: Vec<&ArgSpec> = {
            // globals of the ancestors of the addressed level
            let mut v = Vec::new();
            let mut cur = &sc.spec;
            for n in &man_names {
                for a in cur.args.iter().filter(|a| a.global) {
                    v.push(a);
                }
                cur = cur.subs.iter().find(|s| &s.name == n).unwrap();
            }
            v
        };
        out.comparisons += 1;
        if let Some((clause, site, d)) = man_checks(level, &globals, &ref_text) {
            out.violate(clause, site, format!("man page of `{}`: {d}\n{}", level.name, crate::cmdsim::safe_slice(&ref_text, 0, 1500)));
            return;
        }
        match control_lines(&ref_text) {
            Err(d) => {
                out.violate("control-line-from-user-text", "unknown-request", format!("man page of `{}`: {d}", level.name));
                return;
            }
            Ok(reqs) => {
                let twin = twin_spec(&sc.spec);
                let mut tc = build_cmd(&twin);
                MAN_META.with(|mm| {
                    for x in mm.borrow_mut().iter_mut() {
                        *x = twin_text(x);
                    }
                });
                let (tr, _, _, _) = generate_with(g, &mut tc, &bin, &man_names, &perfect);
                MAN_META.with(|mm| *mm.borrow_mut() = sc.man_meta.clone());
                out.comparisons += 1;
                if let GenOut::Ok(tb) = tr {
                    let tt = String::from_utf8_lossy(&tb).to_string();
                    match control_lines(&tt) {
                        Ok(treqs) => {
                            if treqs != reqs {
                                out.violate("control-line-from-user-text", "multiset", format!("man page of `{}`: the multiset of control lines {:?} differs from that of the twin tree with innocuous text {:?}\n{}", level.name, reqs, treqs, crate::cmdsim::safe_slice(&ref_text, 0, 1500)));
                                return;
                            }
                        }
                        Err(d) => {
                            out.violate("HARNESS-PANIC", "twin", format!("twin page has an unknown request: {d}"));
                            return;
                        }
                    }
                }
            }
        }
    } else {
        out.comparisons += 1;
        let listed = ["visible-short-alias-without-short", "zsh/possible-value-optional-value", "nushell/subcommand-alias"];
        let mut stop = false;
        for (clause, site, d) in script_checks(g, &sc.spec, &ref_text).into_iter().chain(level_scoped_checks(g, &sc.spec, &ref_text)) {
            if !listed.contains(&site.as_str()) {
                stop = true;
            }
            out.violate(clause, site, d);
        }
        if stop {
            return;
        }
    }

    // ---- bash behaviour
    if g == Gen::Bash {
        match run_bash(&ref_text, &["-n"]) {
            Err(e) => {
                out.violate("bash-hang", "bash -n", e);
                return;
            }
            Ok((code, _, err)) => {
                out.comparisons += 1;
                out.count("op.bash_syntax_check");
                if code != 0 {
                    out.violate("bash-rejects-script", "bash -n", format!("bash -n exits {code}: {}", crate::cmdsim::safe_slice(&err, 0, 600)));
                    return;
                }
            }
        }
        let qs = prepare_queries(&sc.spec, &bin, &sc.queries);
        if !qs.is_empty() {
            let mut input = String::new();
            input.push_str(&ref_text);
            input.push_str("\n__q() { COMP_WORDS=(\"$@\"); COMP_CWORD=$(( ${#COMP_WORDS[@]} - 1 )); COMPREPLY=(); ");
            input.push_str(&format!("_{bin} \"${{COMP_WORDS[0]}}\" \"${{COMP_WORDS[COMP_CWORD]}}\" \"${{COMP_WORDS[COMP_CWORD-1]}}\" 2>/dev/null; "));
            input.push_str("printf 'Q'; local r; for r in \"${COMPREPLY[@]}\"; do printf '\\x1f%s' \"$r\"; done; printf '\\n'; }\n");
            for q in &qs {
                input.push_str("__q");
                for w in &q.words {
                    input.push(' ');
                    input.push_str(&sh_quote(w));
                }
                input.push(' ');
                input.push_str(&sh_quote(&q.partial));
                input.push('\n');
            }
            input.push_str("echo DONE\n");
            match run_bash(&input, &["-s"]) {
                Err(e) => {
                    out.violate("bash-hang", "completion-function", e);
                    return;
                }
                Ok((_code, o, err)) => {
                    let lines: Vec<&str> = o.lines().collect();
                    if lines.last() != Some(&"DONE") || lines.len() != qs.len() + 1 {
                        out.violate("bash-rejects-script", "source", format!("sourcing the script and running {} queries gave {} lines; stderr: {}", qs.len(), lines.len(), crate::cmdsim::safe_slice(&err, 0, 600)));
                        return;
                    }
                    let uni = universe(&sc.spec);
                    for (q, line) in qs.iter().zip(lines.iter()) {
                        out.comparisons += 1;
                        out.nontrivial = true;
                        out.count("op.bash_query");
                        let replies: Vec<&str> = line.strip_prefix('Q').unwrap_or("").split('\x1f').filter(|s| !s.is_empty()).collect();
                        ev!(log, "query {:?} {:?} -> {:?}", q.words, q.partial, replies);
                        for m in &q.must {
                            if !replies.contains(&m.as_str()) && q.alias_wo_short.contains(m) {
                                out.violate("coverage-missing", "visible-short-alias-without-short", format!("words {:?} + partial {:?}: visible short alias `{m}` of an argument without a short is not offered by bash", q.words, q.partial));
                                continue;
                            }
                            if !replies.contains(&m.as_str()) {
                                out.violate("bash-completion-missing", if m.starts_with('-') { "option" } else { "subcommand" }, format!("words {:?} + partial {:?}: `{m}` belongs to the addressed level and extends the word but is not offered; COMPREPLY = {:?}", q.words, q.partial, replies));
                                return;
                            }
                        }
                        for r in &replies {
                            if uni.iter().any(|u| u == r) && !q.may.iter().any(|m| m == r) {
                                out.violate("bash-completion-foreign", if r.starts_with('-') { "option" } else { "subcommand" }, format!("words {:?} + partial {:?}: `{r}` is offered but does not belong to the addressed level (or does not extend the word); COMPREPLY = {:?}", q.words, q.partial, replies));
                                return;
                            }
                        }
                    }
                }
            }
        }
    }
    out.shape = shape.get();
}
