//! Declarative command-tree specs (scenario DATA) and their translation into a fresh
//! `clap::Command`. A spec is valid by construction for clap's own rules (DESIGN.md appendix A)
//! and additionally gated by `Command::build()` under debug assertions before use.

use crate::bytes::B;
use clap::builder::{PossibleValue, PossibleValuesParser, TypedValueParser, ValueRange};
use clap::{Arg, ArgAction, ArgGroup, Command, ValueHint};
use serde::{Deserialize, Serialize};
use std::ffi::OsString;

#[derive(Clone, Copy, Debug, Hash, PartialEq, Eq, Serialize, Deserialize, PartialOrd, Ord)]
pub enum CmdSetting {
    InferSubcommands,
    InferLongArgs,
    ArgsConflictsWithSubcommands,
    SubcommandRequired,
    ArgRequiredElseHelp,
    PropagateVersion,
    FlattenHelp,
    DisableHelpFlag,
    DisableHelpSubcommand,
    DisableVersionFlag,
    Multicall,
    NoBinaryName,
    IgnoreErrors,
    AllowExternalSubcommands,
    SubcommandNegatesReqs,
    SubcommandPrecedenceOverArg,
    AllowMissingPositional,
    DontDelimitTrailingValues,
    HidePossibleValues,
    ArgsOverrideSelf,
    NextLineHelp,
    Hide,
}

#[derive(Clone, Copy, Debug, Hash, PartialEq, Eq, Serialize, Deserialize)]
pub enum Action {
    Set,
    Append,
    SetTrue,
    SetFalse,
    Count,
    Help,
    HelpShort,
    HelpLong,
    Version,
}

impl Action {
    pub fn takes_values(self) -> bool {
        matches!(self, Action::Set | Action::Append)
    }
    pub fn to_clap(self) -> ArgAction {
        match self {
            Action::Set => ArgAction::Set,
            Action::Append => ArgAction::Append,
            Action::SetTrue => ArgAction::SetTrue,
            Action::SetFalse => ArgAction::SetFalse,
            Action::Count => ArgAction::Count,
            Action::Help => ArgAction::Help,
            Action::HelpShort => ArgAction::HelpShort,
            Action::HelpLong => ArgAction::HelpLong,
            Action::Version => ArgAction::Version,
        }
    }
}

#[derive(Clone, Debug, Hash, PartialEq, Eq, Serialize, Deserialize, Default)]
pub struct PvSpec {
    pub name: String,
    #[serde(default)]
    pub aliases: Vec<String>,
    #[serde(default)]
    pub hide: bool,
    #[serde(default)]
    pub help: Option<String>,
}

#[derive(Clone, Debug, Hash, PartialEq, Eq, Serialize, Deserialize)]
pub enum ValParser {
    Str,
    Os,
    Path,
    I64 { lo: i64, hi: i64 },
    U16,
    /// a narrower / unsigned integer target with an optional declared range
    Int { w: IntW, range: Option<(i64, i64)> },
    Bool,
    Boolish,
    Possible(Vec<PvSpec>),
    /// A caller-supplied TypedValueParser that rejects the listed raw values (callback fault seam).
    Reject(Vec<String>),
    /// 64-bit ranged parsers whose bounds sit on the extremes of the type or are exclusive / empty
    /// (see `edge_language`)
    Edge(u8),
    /// `EnumValueParser<SimEnum>`: the typed sibling of the possible-values parser
    EnumVp,
}

/// A hand-implemented `ValueEnum` (no derive): `fast`, `slow` (alias `s`), and the hidden `hidden-one`
/// (alias `hush`).
#[derive(Clone, Copy, Debug, PartialEq, Eq)]
pub enum SimEnum {
    Fast,
    Slow,
    HiddenOne,
}

impl clap::ValueEnum for SimEnum {
    fn value_variants<'a>() -> &'a [Self] {
        &[SimEnum::Fast, SimEnum::Slow, SimEnum::HiddenOne]
    }
    fn to_possible_value(&self) -> Option<PossibleValue> {
        Some(match self {
            SimEnum::Fast => PossibleValue::new("fast"),
            SimEnum::Slow => PossibleValue::new("slow").alias("s"),
            SimEnum::HiddenOne => PossibleValue::new("hidden-one").alias("hush").aliases(["mute", "shh"]).hide(true),
        })
    }
}

/// The language of `ValParser::EnumVp`: (spelling, Debug text of the variant).
pub const SIM_ENUM_LANGUAGE: &[(&str, &str)] = &[("fast", "Fast"), ("slow", "Slow"), ("s", "Slow"), ("hidden-one", "HiddenOne"), ("hush", "HiddenOne"), ("mute", "HiddenOne"), ("shh", "HiddenOne")];

/// (unsigned target?, lowest, highest) of the language of `ValParser::Edge(k)`; lowest > highest = empty.
pub fn edge_language(k: u8) -> (bool, i128, i128) {
    match k % 15 {
        // parsers constructed directly for a narrow target type (not through value_parser!): the conversion
        // into the target type is then the last line of defence
        12 => (true, 0, 65535),                              // RangedU64ValueParser::<u16>::new()
        13 => (false, -128, 127),                            // RangedI64ValueParser::<i8>::new()
        14 => (true, 1, 255),                                // RangedU64ValueParser::<u8>::new().range(1..1000)
        10 => (true, 10, 99),                                // u64 .range(10..).range(..100): a later range keeps the earlier bound
        11 => (false, -5, 5),                                // i64 .range(-5..).range(..=5)
        0 => (true, 0, -1),                                  // u64 ..0
        1 => (true, 0, -1),                                  // u64 0..0
        2 => (false, 0, -1),                                 // i64 ..i64::MIN
        3 => (false, 0, -1),                                 // i64 (Excluded(MAX), Unbounded)
        4 => (true, 0, -1),                                  // u64 (Excluded(MAX), Unbounded)
        5 => (true, u64::MAX as i128, u64::MAX as i128),     // u64 u64::MAX..
        6 => (false, i64::MIN as i128, i64::MIN as i128),    // i64 ..=i64::MIN
        7 => (true, 1, u64::MAX as i128),                    // u64 1..
        8 => (false, i64::MIN as i128, -1),                  // i64 ..0
        _ => (true, 0, 0),                                   // u64 ..=0
    }
}

#[derive(Clone, Copy, Debug, Hash, PartialEq, Eq, Serialize, Deserialize, PartialOrd, Ord)]
pub enum IntW {
    I8,
    I16,
    I32,
    U8,
    U32,
    U64,
}

impl IntW {
    pub fn limits(self) -> (i128, i128) {
        match self {
            IntW::I8 => (i8::MIN as i128, i8::MAX as i128),
            IntW::I16 => (i16::MIN as i128, i16::MAX as i128),
            IntW::I32 => (i32::MIN as i128, i32::MAX as i128),
            IntW::U8 => (0, u8::MAX as i128),
            IntW::U32 => (0, u32::MAX as i128),
            IntW::U64 => (0, u64::MAX as i128),
        }
    }
    /// the language: inside the type and inside the declared range
    pub fn language(self, range: Option<(i64, i64)>) -> (i128, i128) {
        let (tl, th) = self.limits();
        match range {
            Some((lo, hi)) => (tl.max(lo as i128), th.min(hi as i128)),
            None => (tl, th),
        }
    }
}

#[derive(Clone, Copy, Debug, Hash, PartialEq, Eq, Serialize, Deserialize)]
pub enum Hint {
    AnyPath,
    FilePath,
    DirPath,
    ExecutablePath,
    CommandName,
    CommandString,
    CommandWithArguments,
    Username,
    Hostname,
    Url,
    EmailAddress,
    Other,
}

impl Hint {
    pub fn to_clap(self) -> ValueHint {
        match self {
            Hint::AnyPath => ValueHint::AnyPath,
            Hint::FilePath => ValueHint::FilePath,
            Hint::DirPath => ValueHint::DirPath,
            Hint::ExecutablePath => ValueHint::ExecutablePath,
            Hint::CommandName => ValueHint::CommandName,
            Hint::CommandString => ValueHint::CommandString,
            Hint::CommandWithArguments => ValueHint::CommandWithArguments,
            Hint::Username => ValueHint::Username,
            Hint::Hostname => ValueHint::Hostname,
            Hint::Url => ValueHint::Url,
            Hint::EmailAddress => ValueHint::EmailAddress,
            Hint::Other => ValueHint::Other,
        }
    }
}

#[derive(Clone, Debug, Hash, PartialEq, Eq, Serialize, Deserialize)]
pub struct ArgSpec {
    pub id: String,
    pub short: Option<char>,
    pub long: Option<String>,
    #[serde(default)]
    pub aliases: Vec<String>,
    #[serde(default)]
    pub visible_aliases: Vec<String>,
    #[serde(default)]
    pub short_aliases: Vec<char>,
    #[serde(default)]
    pub visible_short_aliases: Vec<char>,
    #[serde(default)]
    pub index: Option<usize>,
    pub action: Action,
    /// (min, max); max None = unbounded
    #[serde(default)]
    pub num_args: Option<(usize, Option<usize>)>,
    pub parser: ValParser,
    #[serde(default)]
    pub value_names: Vec<String>,
    #[serde(default)]
    pub value_delimiter: Option<char>,
    #[serde(default)]
    pub value_terminator: Option<String>,
    #[serde(default)]
    pub required: bool,
    #[serde(default)]
    pub global: bool,
    #[serde(default)]
    pub last: bool,
    #[serde(default)]
    pub trailing_var_arg: bool,
    #[serde(default)]
    pub allow_hyphen_values: bool,
    #[serde(default)]
    pub allow_negative_numbers: bool,
    #[serde(default)]
    pub require_equals: bool,
    #[serde(default)]
    pub exclusive: bool,
    #[serde(default)]
    pub ignore_case: bool,
    #[serde(default)]
    pub hide: bool,
    #[serde(default)]
    pub hide_short_help: bool,
    #[serde(default)]
    pub hide_long_help: bool,
    #[serde(default)]
    pub hide_default_value: bool,
    #[serde(default)]
    pub hide_possible_values: bool,
    #[serde(default)]
    pub hide_env: bool,
    #[serde(default)]
    pub hide_env_values: bool,
    #[serde(default)]
    pub next_line_help: bool,
    #[serde(default)]
    pub help: Option<String>,
    #[serde(default)]
    pub long_help: Option<String>,
    #[serde(default)]
    pub help_heading: Option<String>,
    #[serde(default)]
    pub display_order: Option<usize>,
    #[serde(default)]
    pub env: Option<String>,
    #[serde(default)]
    pub default_values: Vec<B>,
    #[serde(default)]
    pub default_missing: Vec<String>,
    /// (other arg, Some(value) = equals / None = present, Some(default) / None = unset)
    #[serde(default)]
    pub default_ifs: Vec<(String, Option<String>, Option<String>)>,
    #[serde(default)]
    pub conflicts: Vec<String>,
    #[serde(default)]
    pub requires: Vec<String>,
    #[serde(default)]
    pub requires_ifs: Vec<(String, String)>,
    #[serde(default)]
    pub required_if_eq: Vec<(String, String)>,
    #[serde(default)]
    pub required_unless: Vec<String>,
    #[serde(default)]
    pub overrides: Vec<String>,
    #[serde(default)]
    pub value_hint: Option<Hint>,
    /// caller-supplied completion callback (dynamic completion): 0 none, 1 empty, 2 duplicates,
    /// 3 hidden only, 4 very long list, 5 ArgValueCompleter echoing the current word
    #[serde(default)]
    pub completer: u8,
}

impl ArgSpec {
    pub fn new(id: &str, action: Action) -> ArgSpec {
        ArgSpec {
            id: id.to_string(),
            short: None,
            long: None,
            aliases: vec![],
            visible_aliases: vec![],
            short_aliases: vec![],
            visible_short_aliases: vec![],
            index: None,
            action,
            num_args: None,
            parser: ValParser::Str,
            value_names: vec![],
            value_delimiter: None,
            value_terminator: None,
            required: false,
            global: false,
            last: false,
            trailing_var_arg: false,
            allow_hyphen_values: false,
            allow_negative_numbers: false,
            require_equals: false,
            exclusive: false,
            ignore_case: false,
            hide: false,
            hide_short_help: false,
            hide_long_help: false,
            hide_default_value: false,
            hide_possible_values: false,
            hide_env: false,
            hide_env_values: false,
            next_line_help: false,
            help: None,
            long_help: None,
            help_heading: None,
            display_order: None,
            env: None,
            default_values: vec![],
            default_missing: vec![],
            default_ifs: vec![],
            conflicts: vec![],
            requires: vec![],
            requires_ifs: vec![],
            required_if_eq: vec![],
            required_unless: vec![],
            overrides: vec![],
            value_hint: None,
            completer: 0,
        }
    }
    pub fn is_positional(&self) -> bool {
        self.short.is_none() && self.long.is_none()
    }
    pub fn takes_values(&self) -> bool {
        match self.action {
            Action::Set | Action::Append => true,
            Action::SetTrue | Action::SetFalse => matches!(self.num_args, Some((_, Some(m))) if m > 0),
            _ => false,
        }
    }
    /// (min, max) after clap's defaulting
    pub fn value_range(&self) -> (usize, Option<usize>) {
        match self.num_args {
            Some(r) => r,
            None => {
                if self.action.takes_values() {
                    (1, Some(1))
                } else {
                    (0, Some(0))
                }
            }
        }
    }
    pub fn is_multiple_values(&self) -> bool {
        let (_, max) = self.value_range();
        max.map(|m| m > 1).unwrap_or(true)
    }
}

#[derive(Clone, Debug, Hash, PartialEq, Eq, Serialize, Deserialize, Default)]
pub struct GroupSpec {
    pub id: String,
    pub args: Vec<String>,
    pub required: bool,
    pub multiple: bool,
    #[serde(default)]
    pub requires: Vec<String>,
    #[serde(default)]
    pub conflicts: Vec<String>,
}

#[derive(Clone, Debug, Hash, PartialEq, Eq, Serialize, Deserialize, Default)]
pub struct CmdSpec {
    pub name: String,
    #[serde(default)]
    pub aliases: Vec<String>,
    #[serde(default)]
    pub visible_aliases: Vec<String>,
    #[serde(default)]
    pub short_flag: Option<char>,
    #[serde(default)]
    pub long_flag: Option<String>,
    #[serde(default)]
    pub short_flag_aliases: Vec<char>,
    #[serde(default)]
    pub long_flag_aliases: Vec<String>,
    #[serde(default)]
    pub visible_long_flag_aliases: Vec<String>,
    #[serde(default)]
    pub about: Option<String>,
    #[serde(default)]
    pub long_about: Option<String>,
    #[serde(default)]
    pub before_help: Option<String>,
    #[serde(default)]
    pub after_help: Option<String>,
    #[serde(default)]
    pub after_long_help: Option<String>,
    #[serde(default)]
    pub author: Option<String>,
    #[serde(default)]
    pub version: Option<String>,
    #[serde(default)]
    pub long_version: Option<String>,
    #[serde(default)]
    pub bin_name: Option<String>,
    #[serde(default)]
    pub display_name: Option<String>,
    #[serde(default)]
    pub settings: Vec<CmdSetting>,
    #[serde(default)]
    pub args: Vec<ArgSpec>,
    #[serde(default)]
    pub groups: Vec<GroupSpec>,
    #[serde(default)]
    pub subs: Vec<CmdSpec>,
    #[serde(default)]
    pub term_width: Option<usize>,
    #[serde(default)]
    pub max_term_width: Option<usize>,
    #[serde(default)]
    pub help_template: Option<String>,
    #[serde(default)]
    pub override_usage: Option<String>,
    /// `Command::display_order` (position among the sibling subcommands in listings)
    #[serde(default)]
    pub display_order: Option<usize>,
    #[serde(default)]
    pub subcommand_value_name: Option<String>,
    #[serde(default)]
    pub subcommand_help_heading: Option<String>,
    /// 0 = none; 1,2 = one of the static deferred builders below
    #[serde(default)]
    pub defer: u8,
    /// SubcommandCandidates callback kind for external subcommands (0 none)
    #[serde(default)]
    pub ext_candidates: u8,
    /// external_subcommand_value_parser: 0 default (OsString), 1 String (rejects non-UTF-8),
    /// 2 caller-supplied parser rejecting the raw values `bad` / `reject`
    #[serde(default)]
    pub ext_parser: u8,
}

impl CmdSpec {
    pub fn has(&self, s: CmdSetting) -> bool {
        self.settings.contains(&s)
    }
    pub fn set(&mut self, s: CmdSetting) {
        if !self.has(s) {
            self.settings.push(s);
        }
    }
    pub fn unset(&mut self, s: CmdSetting) {
        self.settings.retain(|x| *x != s);
    }
    pub fn walk<'a>(&'a self, f: &mut dyn FnMut(&'a CmdSpec, usize), depth: usize) {
        f(self, depth);
        for s in &self.subs {
            s.walk(f, depth + 1);
        }
    }
    pub fn count_cmds(&self) -> usize {
        1 + self.subs.iter().map(|s| s.count_cmds()).sum::<usize>()
    }
    pub fn count_args(&self) -> usize {
        self.args.len() + self.subs.iter().map(|s| s.count_args()).sum::<usize>()
    }
    /// All spellings by which this subcommand can be named as a plain word.
    pub fn all_names(&self) -> Vec<String> {
        let mut v = vec![self.name.clone()];
        v.extend(self.aliases.iter().cloned());
        v.extend(self.visible_aliases.iter().cloned());
        v
    }
    /// Feature bitset for shape hashing.
    pub fn feature_bits(&self) -> u64 {
        let mut bits = 0u64;
        self.walk(
            &mut |c, _| {
                for s in &c.settings {
                    bits |= 1 << (*s as u64);
                }
                for a in &c.args {
                    if a.global {
                        bits |= 1 << 32;
                    }
                    if a.is_positional() {
                        bits |= 1 << 33;
                    }
                    if !a.conflicts.is_empty() || !a.requires.is_empty() || !a.overrides.is_empty() {
                        bits |= 1 << 34;
                    }
                    if a.env.is_some() {
                        bits |= 1 << 35;
                    }
                    if !a.default_values.is_empty() {
                        bits |= 1 << 36;
                    }
                    if a.hide {
                        bits |= 1 << 37;
                    }
                    bits |= 1 << (40 + a.action as u64);
                }
                if !c.groups.is_empty() {
                    bits |= 1 << 38;
                }
                if c.short_flag.is_some() || c.long_flag.is_some() {
                    bits |= 1 << 39;
                }
                if c.defer != 0 {
                    bits |= 1 << 50;
                }
            },
            0,
        );
        bits
    }
}

// ------------------------------------------------------------------------------------------
// Callback seam: a caller-supplied value parser that fails for raw values named by the scenario.

#[derive(Clone, Debug)]
pub struct RejectParser {
    pub bad: Vec<String>,
}

impl TypedValueParser for RejectParser {
    type Value = String;
    fn parse_ref(&self, cmd: &Command, arg: Option<&Arg>, value: &std::ffi::OsStr) -> Result<String, clap::Error> {
        let s = match value.to_str() {
            Some(s) => s,
            None => {
                return Err(clap::Error::new(clap::error::ErrorKind::InvalidUtf8).with_cmd(cmd));
            }
        };
        if self.bad.iter().any(|b| b == s) {
            let mut e = clap::Error::new(clap::error::ErrorKind::ValueValidation).with_cmd(cmd);
            if let Some(a) = arg {
                e.insert(clap::error::ContextKind::InvalidArg, clap::error::ContextValue::String(a.to_string()));
            }
            e.insert(clap::error::ContextKind::InvalidValue, clap::error::ContextValue::String(s.to_string()));
            return Err(e);
        }
        Ok(s.to_string())
    }
}

fn deferred_one(cmd: Command) -> Command {
    cmd.arg(Arg::new("deferred_flag").long("deferred-flag").action(ArgAction::SetTrue))
}

fn deferred_two(cmd: Command) -> Command {
    cmd.arg(Arg::new("deferred_opt").long("deferred-opt").action(ArgAction::Set).default_value("dv"))
}

pub fn value_range(r: (usize, Option<usize>)) -> ValueRange {
    match r {
        (min, Some(max)) => ValueRange::new(min..=max),
        (min, None) => ValueRange::new(min..),
    }
}

pub fn build_arg(a: &ArgSpec) -> Arg {
    let mut x = Arg::new(a.id.clone());
    if let Some(c) = a.short {
        x = x.short(c);
    }
    if let Some(l) = &a.long {
        x = x.long(l.clone());
    }
    for al in &a.aliases {
        x = x.alias(al.clone());
    }
    for al in &a.visible_aliases {
        x = x.visible_alias(al.clone());
    }
    for al in &a.short_aliases {
        x = x.short_alias(*al);
    }
    for al in &a.visible_short_aliases {
        x = x.visible_short_alias(*al);
    }
    if let Some(i) = a.index {
        x = x.index(i);
    }
    x = x.action(a.action.to_clap());
    if let Some(r) = a.num_args {
        x = x.num_args(value_range(r));
    }
    // a counter may carry a narrower u8 parser: counting past its range is a value error
    if a.action == Action::Count {
        if let ValParser::Int { w: IntW::U8, range: Some((lo, hi)) } = &a.parser {
            x = x.value_parser(clap::value_parser!(u8).range(*lo..=*hi));
        }
    }
    if a.action.takes_values() {
        x = match &a.parser {
            ValParser::Str => x.value_parser(clap::value_parser!(String)),
            ValParser::Os => x.value_parser(clap::value_parser!(OsString)),
            ValParser::Path => x.value_parser(clap::value_parser!(std::path::PathBuf)),
            ValParser::I64 { lo, hi } => x.value_parser(clap::value_parser!(i64).range(*lo..=*hi)),
            ValParser::U16 => x.value_parser(clap::value_parser!(u16)),
            ValParser::Int { w, range } => match (w, range) {
                (IntW::I8, None) => x.value_parser(clap::value_parser!(i8)),
                (IntW::I8, Some((lo, hi))) => x.value_parser(clap::value_parser!(i8).range(*lo..=*hi)),
                (IntW::I16, None) => x.value_parser(clap::value_parser!(i16)),
                (IntW::I16, Some((lo, hi))) => x.value_parser(clap::value_parser!(i16).range(*lo..=*hi)),
                (IntW::I32, None) => x.value_parser(clap::value_parser!(i32)),
                (IntW::I32, Some((lo, hi))) => x.value_parser(clap::value_parser!(i32).range(*lo..=*hi)),
                (IntW::U8, None) => x.value_parser(clap::value_parser!(u8)),
                (IntW::U8, Some((lo, hi))) => x.value_parser(clap::value_parser!(u8).range(*lo..=*hi)),
                (IntW::U32, None) => x.value_parser(clap::value_parser!(u32)),
                (IntW::U32, Some((lo, hi))) => x.value_parser(clap::value_parser!(u32).range(*lo..=*hi)),
                (IntW::U64, None) => x.value_parser(clap::value_parser!(u64)),
                (IntW::U64, Some((lo, hi))) => x.value_parser(clap::value_parser!(u64).range((*lo).max(0) as u64..=(*hi).max(0) as u64)),
            },
            ValParser::Bool => x.value_parser(clap::value_parser!(bool)),
            ValParser::Boolish => x.value_parser(clap::builder::BoolishValueParser::new()),
            ValParser::Possible(pvs) => x.value_parser(PossibleValuesParser::new(pvs.iter().map(build_pv).collect::<Vec<_>>())),
            ValParser::Reject(bad) => x.value_parser(RejectParser { bad: bad.clone() }),
            ValParser::EnumVp => x.value_parser(clap::builder::EnumValueParser::<SimEnum>::new()),
            ValParser::Edge(k) => {
                use std::ops::Bound::{Excluded, Unbounded};
                match k % 15 {
                    12 => x.value_parser(clap::builder::RangedU64ValueParser::<u16>::new()),
                    13 => x.value_parser(clap::builder::RangedI64ValueParser::<i8>::new()),
                    14 => x.value_parser(clap::builder::RangedU64ValueParser::<u8>::new().range(1..1000)),
                    10 => x.value_parser(clap::value_parser!(u64).range(10..).range(..100)),
                    11 => x.value_parser(clap::value_parser!(i64).range(-5..).range(..=5)),
                    0 => x.value_parser(clap::value_parser!(u64).range(..0)),
                    1 => x.value_parser(clap::value_parser!(u64).range(0..0)),
                    2 => x.value_parser(clap::value_parser!(i64).range(..i64::MIN)),
                    3 => x.value_parser(clap::value_parser!(i64).range((Excluded(i64::MAX), Unbounded))),
                    4 => x.value_parser(clap::value_parser!(u64).range((Excluded(u64::MAX), Unbounded))),
                    5 => x.value_parser(clap::value_parser!(u64).range(u64::MAX..)),
                    6 => x.value_parser(clap::value_parser!(i64).range(..=i64::MIN)),
                    7 => x.value_parser(clap::value_parser!(u64).range(1..)),
                    8 => x.value_parser(clap::value_parser!(i64).range(..0)),
                    _ => x.value_parser(clap::value_parser!(u64).range(..=0)),
                }
            }
        };
    }
    if !a.value_names.is_empty() {
        x = x.value_names(a.value_names.clone());
    }
    if let Some(d) = a.value_delimiter {
        x = x.value_delimiter(d);
    }
    if let Some(t) = &a.value_terminator {
        x = x.value_terminator(t.clone());
    }
    if a.required {
        x = x.required(true);
    }
    if a.global {
        x = x.global(true);
    }
    if a.last {
        x = x.last(true);
    }
    if a.trailing_var_arg {
        x = x.trailing_var_arg(true);
    }
    if a.allow_hyphen_values {
        x = x.allow_hyphen_values(true);
    }
    if a.allow_negative_numbers {
        x = x.allow_negative_numbers(true);
    }
    if a.require_equals {
        x = x.require_equals(true);
    }
    if a.exclusive {
        x = x.exclusive(true);
    }
    if a.ignore_case {
        x = x.ignore_case(true);
    }
    if a.hide {
        x = x.hide(true);
    }
    if a.hide_short_help {
        x = x.hide_short_help(true);
    }
    if a.hide_long_help {
        x = x.hide_long_help(true);
    }
    if a.hide_default_value {
        x = x.hide_default_value(true);
    }
    if a.hide_possible_values {
        x = x.hide_possible_values(true);
    }
    if a.hide_env {
        x = x.hide_env(true);
    }
    if a.hide_env_values {
        x = x.hide_env_values(true);
    }
    if a.next_line_help {
        x = x.next_line_help(true);
    }
    if let Some(h) = &a.help {
        x = x.help(h.clone());
    }
    if let Some(h) = &a.long_help {
        x = x.long_help(h.clone());
    }
    if let Some(h) = &a.help_heading {
        x = x.help_heading(h.clone());
    }
    if let Some(o) = a.display_order {
        x = x.display_order(o);
    }
    if let Some(e) = &a.env {
        x = x.env(e.clone());
    }
    if !a.default_values.is_empty() {
        x = x.default_values_os(a.default_values.iter().map(|b| b.os()).collect::<Vec<_>>());
    }
    if !a.default_missing.is_empty() {
        x = x.default_missing_values(a.default_missing.clone());
    }
    for (other, eq, dv) in &a.default_ifs {
        let pred: clap::builder::ArgPredicate = match eq {
            Some(v) => clap::builder::ArgPredicate::Equals(v.clone().into()),
            None => clap::builder::ArgPredicate::IsPresent,
        };
        x = match dv {
            Some(d) => x.default_value_if(other.clone(), pred, d.clone()),
            None => x.default_value_if(other.clone(), pred, None::<&'static str>),
        };
    }
    for c in &a.conflicts {
        x = x.conflicts_with(c.clone());
    }
    for c in &a.requires {
        x = x.requires(c.clone());
    }
    for (v, c) in &a.requires_ifs {
        x = x.requires_if(v.clone(), c.clone());
    }
    for (o, v) in &a.required_if_eq {
        x = x.required_if_eq(o.clone(), v.clone());
    }
    for o in &a.required_unless {
        x = x.required_unless_present(o.clone());
    }
    for o in &a.overrides {
        x = x.overrides_with(o.clone());
    }
    if let Some(h) = a.value_hint {
        x = x.value_hint(h.to_clap());
    }
    if a.completer != 0 && a.action.takes_values() {
        let k = a.completer;
        if k == 5 {
            x = x.add(clap_complete::engine::ArgValueCompleter::new(|cur: &std::ffi::OsStr| {
                let mut v = cur.to_os_string();
                v.push("-completed");
                vec![clap_complete::engine::CompletionCandidate::new(v)]
            }));
        } else {
            x = x.add(clap_complete::engine::ArgValueCandidates::new(move || candidate_list(k)));
        }
    }
    x
}

pub fn candidate_list(kind: u8) -> Vec<clap_complete::engine::CompletionCandidate> {
    use clap_complete::engine::CompletionCandidate as C;
    match kind {
        1 => vec![],
        2 => vec![C::new("dup"), C::new("dup"), C::new("dup2")],
        3 => vec![C::new("hid1").hide(true), C::new("hid2").hide(true)],
        4 => (0..300).map(|i| C::new(format!("cand{i:04}")).help(Some("candidate help".into()))).collect(),
        _ => vec![C::new("cb-one"), C::new("cb-two").help(Some("two".into()))],
    }
}

pub fn build_pv(p: &PvSpec) -> PossibleValue {
    let mut v = PossibleValue::new(p.name.clone());
    // the first alias through `alias`, the others through `aliases`: both setters add to the list
    if let Some((first, rest)) = p.aliases.split_first() {
        v = v.alias(first.clone());
        if !rest.is_empty() {
            v = v.aliases(rest.to_vec());
        }
    }
    if p.hide {
        v = v.hide(true);
    }
    if let Some(h) = &p.help {
        v = v.help(h.clone());
    }
    v
}

pub fn build_cmd(s: &CmdSpec) -> Command {
    let mut c = Command::new(s.name.clone());
    for a in &s.aliases {
        c = c.alias(a.clone());
    }
    for a in &s.visible_aliases {
        c = c.visible_alias(a.clone());
    }
    if let Some(f) = s.short_flag {
        c = c.short_flag(f);
    }
    if let Some(f) = &s.long_flag {
        c = c.long_flag(f.clone());
    }
    for a in &s.short_flag_aliases {
        c = c.short_flag_alias(*a);
    }
    for a in &s.long_flag_aliases {
        c = c.long_flag_alias(a.clone());
    }
    for a in &s.visible_long_flag_aliases {
        c = c.visible_long_flag_alias(a.clone());
    }
    if let Some(x) = &s.about {
        c = c.about(x.clone());
    }
    if let Some(x) = &s.long_about {
        c = c.long_about(x.clone());
    }
    if let Some(x) = &s.before_help {
        c = c.before_help(x.clone());
    }
    if let Some(x) = &s.after_help {
        c = c.after_help(x.clone());
    }
    if let Some(x) = &s.after_long_help {
        c = c.after_long_help(x.clone());
    }
    if let Some(x) = &s.author {
        c = c.author(x.clone());
    }
    if let Some(x) = &s.version {
        c = c.version(x.clone());
    }
    if let Some(x) = &s.long_version {
        c = c.long_version(x.clone());
    }
    if let Some(x) = &s.bin_name {
        c = c.bin_name(x.clone());
    }
    if let Some(x) = &s.display_name {
        c = c.display_name(x.clone());
    }
    if let Some(w) = s.term_width {
        c = c.term_width(w);
    }
    if let Some(w) = s.max_term_width {
        c = c.max_term_width(w);
    }
    if let Some(t) = &s.help_template {
        c = c.help_template(t.clone());
    }
    if let Some(t) = &s.override_usage {
        c = c.override_usage(t.clone());
    }
    if let Some(o) = s.display_order {
        c = c.display_order(o);
    }
    if let Some(t) = &s.subcommand_value_name {
        c = c.subcommand_value_name(t.clone());
    }
    if let Some(t) = &s.subcommand_help_heading {
        c = c.subcommand_help_heading(t.clone());
    }
    for st in &s.settings {
        c = match st {
            CmdSetting::InferSubcommands => c.infer_subcommands(true),
            CmdSetting::InferLongArgs => c.infer_long_args(true),
            CmdSetting::ArgsConflictsWithSubcommands => c.args_conflicts_with_subcommands(true),
            CmdSetting::SubcommandRequired => c.subcommand_required(true),
            CmdSetting::ArgRequiredElseHelp => c.arg_required_else_help(true),
            CmdSetting::PropagateVersion => c.propagate_version(true),
            CmdSetting::FlattenHelp => c.flatten_help(true),
            CmdSetting::DisableHelpFlag => c.disable_help_flag(true),
            CmdSetting::DisableHelpSubcommand => c.disable_help_subcommand(true),
            CmdSetting::DisableVersionFlag => c.disable_version_flag(true),
            CmdSetting::Multicall => c.multicall(true),
            CmdSetting::NoBinaryName => c.no_binary_name(true),
            CmdSetting::IgnoreErrors => c.ignore_errors(true),
            CmdSetting::AllowExternalSubcommands => c.allow_external_subcommands(true),
            CmdSetting::SubcommandNegatesReqs => c.subcommand_negates_reqs(true),
            CmdSetting::SubcommandPrecedenceOverArg => c.subcommand_precedence_over_arg(true),
            CmdSetting::AllowMissingPositional => c.allow_missing_positional(true),
            CmdSetting::DontDelimitTrailingValues => c.dont_delimit_trailing_values(true),
            CmdSetting::HidePossibleValues => c.hide_possible_values(true),
            CmdSetting::ArgsOverrideSelf => c.args_override_self(true),
            CmdSetting::NextLineHelp => c.next_line_help(true),
            CmdSetting::Hide => c.hide(true),
        };
    }
    match s.ext_parser {
        1 => c = c.external_subcommand_value_parser(clap::value_parser!(String)),
        2 => c = c.external_subcommand_value_parser(RejectParser { bad: vec!["bad".into(), "reject".into()] }),
        _ => {}
    }
    if s.ext_candidates != 0 {
        let k = s.ext_candidates;
        c = c.add(clap_complete::engine::SubcommandCandidates::new(move || candidate_list(k)));
    }
    match s.defer {
        1 => c = c.defer(deferred_one),
        2 => c = c.defer(deferred_two),
        _ => {}
    }
    for a in &s.args {
        c = c.arg(build_arg(a));
    }
    for g in &s.groups {
        let mut gr = ArgGroup::new(g.id.clone()).args(g.args.clone()).required(g.required).multiple(g.multiple);
        for r in &g.requires {
            gr = gr.requires(r.clone());
        }
        for r in &g.conflicts {
            gr = gr.conflicts_with(r.clone());
        }
        c = c.group(gr);
    }
    for sub in &s.subs {
        c = c.subcommand(build_cmd(sub));
    }
    c
}

/// clap's own validity gate: `build()` under debug assertions. Returns the panic message when rejected.
pub fn gate(s: &CmdSpec) -> Result<(), String> {
    match crate::core::catch(|| {
        let mut c = build_cmd(s);
        c.build();
    }) {
        Ok(()) => Ok(()),
        Err(p) => Err(format!("{} at {}", p.msg, p.loc)),
    }
}

// ------------------------------------------------------------------------------------------
// Spec minimisation candidates (validity is re-checked by the executor's gate).

type ArgEdit = fn(&mut ArgSpec) -> bool;

fn clear_vec<T>(v: &mut Vec<T>) -> bool {
    if v.is_empty() {
        false
    } else {
        v.clear();
        true
    }
}
fn clear_opt<T>(v: &mut Option<T>) -> bool {
    if v.is_none() {
        false
    } else {
        *v = None;
        true
    }
}
fn clear_bool(v: &mut bool) -> bool {
    if *v {
        *v = false;
        true
    } else {
        false
    }
}

const ARG_EDITS: &[ArgEdit] = &[
    |a| clear_vec(&mut a.aliases),
    |a| clear_vec(&mut a.visible_aliases),
    |a| clear_vec(&mut a.short_aliases),
    |a| clear_vec(&mut a.visible_short_aliases),
    |a| clear_vec(&mut a.conflicts),
    |a| clear_vec(&mut a.requires),
    |a| clear_vec(&mut a.requires_ifs),
    |a| clear_vec(&mut a.required_if_eq),
    |a| clear_vec(&mut a.required_unless),
    |a| clear_vec(&mut a.overrides),
    |a| clear_vec(&mut a.default_ifs),
    |a| clear_vec(&mut a.default_values),
    |a| clear_vec(&mut a.default_missing),
    |a| clear_vec(&mut a.value_names),
    |a| clear_opt(&mut a.value_delimiter),
    |a| clear_opt(&mut a.value_terminator),
    |a| clear_opt(&mut a.help),
    |a| clear_opt(&mut a.long_help),
    |a| clear_opt(&mut a.help_heading),
    |a| clear_opt(&mut a.display_order),
    |a| clear_opt(&mut a.env),
    |a| clear_opt(&mut a.value_hint),
    |a| clear_opt(&mut a.index),
    |a| clear_opt(&mut a.num_args),
    |a| clear_bool(&mut a.required),
    |a| clear_bool(&mut a.global),
    |a| clear_bool(&mut a.last),
    |a| clear_bool(&mut a.trailing_var_arg),
    |a| clear_bool(&mut a.allow_hyphen_values),
    |a| clear_bool(&mut a.allow_negative_numbers),
    |a| clear_bool(&mut a.require_equals),
    |a| clear_bool(&mut a.exclusive),
    |a| clear_bool(&mut a.ignore_case),
    |a| clear_bool(&mut a.hide),
    |a| clear_bool(&mut a.hide_short_help),
    |a| clear_bool(&mut a.hide_long_help),
    |a| clear_bool(&mut a.hide_default_value),
    |a| clear_bool(&mut a.hide_possible_values),
    |a| clear_bool(&mut a.next_line_help),
    |a| {
        if a.parser != ValParser::Str && a.action.takes_values() {
            a.parser = ValParser::Str;
            true
        } else {
            false
        }
    },
    |a| {
        if a.short.is_some() && a.long.is_some() {
            a.short = None;
            true
        } else {
            false
        }
    },
    |a| {
        if a.short.is_some() && a.long.is_some() {
            a.long = None;
            a.aliases.clear();
            a.visible_aliases.clear();
            true
        } else {
            false
        }
    },
    |a| {
        let mut ch = false;
        for t in [&mut a.help, &mut a.long_help] {
            if let Some(s) = t {
                if s.chars().count() > 8 {
                    let k: String = s.chars().take(s.chars().count() / 2).collect();
                    *s = k;
                    ch = true;
                }
            }
        }
        ch
    },
];

type CmdEdit = fn(&mut CmdSpec) -> bool;
const CMD_EDITS: &[CmdEdit] = &[
    |c| clear_vec(&mut c.aliases),
    |c| clear_vec(&mut c.visible_aliases),
    |c| clear_vec(&mut c.short_flag_aliases),
    |c| clear_vec(&mut c.long_flag_aliases),
    |c| clear_vec(&mut c.visible_long_flag_aliases),
    |c| clear_opt(&mut c.short_flag),
    |c| clear_opt(&mut c.long_flag),
    |c| clear_opt(&mut c.about),
    |c| clear_opt(&mut c.long_about),
    |c| clear_opt(&mut c.before_help),
    |c| clear_opt(&mut c.after_help),
    |c| clear_opt(&mut c.after_long_help),
    |c| clear_opt(&mut c.author),
    |c| clear_opt(&mut c.long_version),
    |c| clear_opt(&mut c.version),
    |c| clear_opt(&mut c.term_width),
    |c| clear_opt(&mut c.max_term_width),
    |c| clear_opt(&mut c.help_template),
    |c| clear_opt(&mut c.override_usage),
    |c| clear_opt(&mut c.subcommand_value_name),
    |c| clear_opt(&mut c.subcommand_help_heading),
    |c| clear_opt(&mut c.bin_name),
    |c| clear_opt(&mut c.display_name),
    |c| clear_vec(&mut c.groups),
    |c| {
        if c.defer != 0 {
            c.defer = 0;
            true
        } else {
            false
        }
    },
];

pub fn shrink_spec(c: &CmdSpec) -> Vec<CmdSpec> {
    let mut out = Vec::new();
    // structural removals first
    for i in 0..c.subs.len() {
        let mut x = c.clone();
        x.subs.remove(i);
        out.push(x);
    }
    for i in 0..c.args.len() {
        let mut x = c.clone();
        let id = x.args[i].id.clone();
        x.args.remove(i);
        // drop dangling references
        for a in x.args.iter_mut() {
            a.conflicts.retain(|r| *r != id);
            a.requires.retain(|r| *r != id);
            a.requires_ifs.retain(|r| r.1 != id);
            a.required_if_eq.retain(|r| r.0 != id);
            a.required_unless.retain(|r| *r != id);
            a.overrides.retain(|r| *r != id);
            a.default_ifs.retain(|r| r.0 != id);
        }
        for g in x.groups.iter_mut() {
            g.args.retain(|r| *r != id);
            g.requires.retain(|r| *r != id);
            g.conflicts.retain(|r| *r != id);
        }
        x.groups.retain(|g| !g.args.is_empty());
        // re-number explicit positional indices
        let mut k = 0;
        for a in x.args.iter_mut() {
            if a.is_positional() {
                k += 1;
                if a.index.is_some() {
                    a.index = Some(k);
                }
            }
        }
        out.push(x);
    }
    for i in 0..c.groups.len() {
        let mut x = c.clone();
        let id = x.groups[i].id.clone();
        x.groups.remove(i);
        for a in x.args.iter_mut() {
            a.conflicts.retain(|r| *r != id);
            a.requires.retain(|r| *r != id);
        }
        out.push(x);
    }
    for s in &c.settings {
        let mut x = c.clone();
        x.unset(*s);
        out.push(x);
    }
    for e in CMD_EDITS {
        let mut x = c.clone();
        if e(&mut x) {
            out.push(x);
        }
    }
    for i in 0..c.args.len() {
        for e in ARG_EDITS {
            let mut x = c.clone();
            if e(&mut x.args[i]) {
                out.push(x);
            }
        }
        if let ValParser::Possible(pvs) = &c.args[i].parser {
            if pvs.len() > 1 {
                for k in 0..pvs.len() {
                    let mut x = c.clone();
                    if let ValParser::Possible(p) = &mut x.args[i].parser {
                        p.remove(k);
                    }
                    out.push(x);
                }
            }
        }
    }
    // recurse
    for i in 0..c.subs.len() {
        for v in shrink_spec(&c.subs[i]) {
            let mut x = c.clone();
            x.subs[i] = v;
            out.push(x);
        }
    }
    // hoist a subcommand's subtree in place of the tree (keeps the root name)
    out
}

pub fn shrink_argv(argv: &[B]) -> Vec<Vec<B>> {
    let mut out = Vec::new();
    for i in 0..argv.len() {
        let mut v = argv.to_vec();
        v.remove(i);
        out.push(v);
    }
    for i in 0..argv.len() {
        if argv[i].0.len() > 1 {
            let mut v = argv.to_vec();
            v[i].0.pop();
            out.push(v);
        }
    }
    out
}
