//! C06 — the process environment as a simulated store with a timeline.
//!
//! Timeline events set/unset real environment variables of the (single-threaded) worker
//! process, (re)define the command (clap snapshots the variable when the argument is defined),
//! and parse argument vectors printed from an *intent*. A small reference model (no clap code)
//! predicts origin, raw values and rule outcomes.

use crate::bytes::{esc, B};
use crate::cmdsim::{outcome_of, POut};
use crate::core::*;
use crate::ev;
use crate::rng::Rng;
use crate::spec::*;
use clap::error::ErrorKind;
use clap::parser::ValueSource;
use clap::ArgMatches;
use serde::{Deserialize, Serialize};
use std::collections::BTreeMap;
use std::ffi::OsString;
use std::os::unix::ffi::OsStrExt;

#[derive(Clone, Debug, Hash, Serialize, Deserialize, PartialEq)]
pub struct Occ {
    pub arg: String,
    pub values: Vec<String>,
    /// 0 `--long=v`, 1 `--long v`, 2 `-s v`, 3 `-sv`, 4 `-s=v` (fallbacks when a spelling does not exist)
    pub form: u8,
}

#[derive(Clone, Debug, Hash, Serialize, Deserialize, PartialEq, Default)]
pub struct LevelIntent {
    pub occs: Vec<Occ>,
    /// index of the subcommand to descend into
    pub sub: Option<usize>,
}

#[derive(Clone, Debug, Hash, Serialize, Deserialize, PartialEq, Default)]
pub struct Intent {
    pub levels: Vec<LevelIntent>,
}

#[derive(Clone, Debug, Hash, Serialize, Deserialize, PartialEq)]
pub enum Ev {
    SetEnv(String, B),
    UnsetEnv(String),
    Define,
    Parse(Intent),
    /// the line of the intent followed by one token that cannot be parsed (0 unknown long flag,
    /// 1 unknown short flag, 2 `--flag=oops` on a value-less flag), given to a fresh definition with
    /// `ignore_errors(true)`: the parse recovers, and everything supplied before the fault keeps its origin
    #[serde(alias = "ParseRecovering")]
    Recover(Intent, u8),
}

#[derive(Clone, Debug, Hash, Serialize, Deserialize, PartialEq)]
pub struct C06Sc {
    pub spec: CmdSpec,
    pub timeline: Vec<Ev>,
    /// fault-injecting configuration: the environment may change after `Define`
    pub faulty: bool,
}

pub struct EnvSim;

// ------------------------------------------------------------------------------------------
// Reference model

#[derive(Clone, Copy, Debug, PartialEq, Eq)]
pub enum Src {
    Cli,
    Env,
    Default,
}

#[derive(Clone, Debug, PartialEq, Eq)]
pub struct ArgExpect {
    pub src: Src,
    pub raw: Vec<Vec<Vec<u8>>>,
}

#[derive(Clone, Debug, Default)]
pub struct Expect {
    /// classes of rule/value errors the model predicts (empty = success)
    pub errors: Vec<(&'static str, String)>,
    /// per level of the chain: arg id -> expectation (absent = not in the map)
    pub levels: Vec<BTreeMap<String, ArgExpect>>,
    pub args_present: Vec<bool>,
    pub chain: Vec<String>,
}

fn split_delim(v: &[u8], d: Option<char>) -> Vec<Vec<u8>> {
    match d {
        Some(d) => {
            let mut buf = [0u8; 4];
            let db = d.encode_utf8(&mut buf).as_bytes().to_vec();
            let mut out = Vec::new();
            let mut rest = v;
            loop {
                match rest.windows(db.len()).position(|w| w == &db[..]) {
                    Some(i) => {
                        out.push(rest[..i].to_vec());
                        rest = &rest[i + db.len()..];
                    }
                    None => {
                        out.push(rest.to_vec());
                        break;
                    }
                }
            }
            out
        }
        None => vec![v.to_vec()],
    }
}

/// Independent reading of a value against the parser's language.
pub fn value_ok(a: &ArgSpec, v: &[u8]) -> Result<(), &'static str> {
    let s = std::str::from_utf8(v);
    match a.action {
        Action::SetTrue | Action::SetFalse => {
            return match s {
                Ok("true") | Ok("false") => Ok(()),
                Ok(_) => Err("bad-value"),
                Err(_) => Err("non-utf8"),
            }
        }
        Action::Count => {
            let (lo, hi) = match &a.parser {
                ValParser::Int { w: IntW::U8, range } => IntW::U8.language(*range),
                _ => (0, 255),
            };
            return match s {
                Ok(t) => {
                    if dec_in_range(t, lo, hi) {
                        Ok(())
                    } else {
                        Err("bad-value")
                    }
                }
                Err(_) => Err("non-utf8"),
            }
        }
        _ => {}
    }
    match &a.parser {
        ValParser::Os => Ok(()),
        // PathBufValueParser documents that it rejects the empty string
        ValParser::Path => {
            if v.is_empty() {
                Err("bad-value")
            } else {
                Ok(())
            }
        }
        ValParser::Str | ValParser::Reject(_) => s.map(|_| ()).map_err(|_| "non-utf8"),
        ValParser::I64 { lo, hi } => match s {
            Ok(t) => {
                if dec_in_range(t, *lo as i128, *hi as i128) {
                    Ok(())
                } else {
                    Err("bad-value")
                }
            }
            Err(_) => Err("non-utf8"),
        },
        ValParser::Int { w, range } => match s {
            Ok(t) => {
                let (lo, hi) = w.language(*range);
                if dec_in_range(t, lo, hi) {
                    Ok(())
                } else {
                    Err("bad-value")
                }
            }
            Err(_) => Err("non-utf8"),
        },
        ValParser::EnumVp => match s {
            Ok(t) => {
                if SIM_ENUM_LANGUAGE.iter().any(|(n, _)| if a.ignore_case { n.eq_ignore_ascii_case(t) } else { *n == t }) {
                    Ok(())
                } else {
                    Err("bad-value")
                }
            }
            Err(_) => Err("non-utf8"),
        },
        ValParser::Edge(k) => match s {
            Ok(t) => {
                let (_, lo, hi) = edge_language(*k);
                if dec_in_range(t, lo, hi) {
                    Ok(())
                } else {
                    Err("bad-value")
                }
            }
            Err(_) => Err("non-utf8"),
        },
        ValParser::U16 => match s {
            Ok(t) => {
                if dec_in_range(t, 0, 65535) {
                    Ok(())
                } else {
                    Err("bad-value")
                }
            }
            Err(_) => Err("non-utf8"),
        },
        ValParser::Bool => match s {
            Ok("true") | Ok("false") => Ok(()),
            Ok(_) => Err("bad-value"),
            Err(_) => Err("non-utf8"),
        },
        ValParser::Boolish => match s {
            Ok(t) => {
                let l = t.to_lowercase();
                if ["y", "yes", "t", "true", "on", "1", "n", "no", "f", "false", "off", "0"].contains(&l.as_str()) {
                    Ok(())
                } else {
                    Err("bad-value")
                }
            }
            Err(_) => Err("non-utf8"),
        },
        ValParser::Possible(pvs) => match s {
            Ok(t) => {
                let hit = pvs.iter().any(|p| {
                    std::iter::once(&p.name).chain(p.aliases.iter()).any(|n| if a.ignore_case { n.to_lowercase() == t.to_lowercase() } else { n == t })
                });
                if hit {
                    Ok(())
                } else {
                    Err("bad-value")
                }
            }
            Err(_) => Err("non-utf8"),
        },
    }
}

/// Own decimal reader: optional sign, digits only, value in [lo, hi] (i128 arithmetic, overflow = out).
pub fn dec_in_range(t: &str, lo: i128, hi: i128) -> bool {
    let b = t.as_bytes();
    if b.is_empty() {
        return false;
    }
    let (neg, digits) = match b[0] {
        b'-' => (true, &b[1..]),
        b'+' => (false, &b[1..]),
        _ => (false, b),
    };
    if digits.is_empty() || !digits.iter().all(|c| c.is_ascii_digit()) {
        return false;
    }
    let mut v: i128 = 0;
    for d in digits {
        v = v * 10 + (*d - b'0') as i128;
        if v > (1i128 << 100) {
            return false;
        }
    }
    if neg {
        v = -v;
    }
    v >= lo && v <= hi
}

fn env_name(a: &ArgSpec) -> Option<&str> {
    a.env.as_deref()
}

fn implicit_default(a: &ArgSpec) -> Option<&'static str> {
    match a.action {
        Action::SetTrue => Some("false"),
        Action::SetFalse => Some("true"),
        Action::Count => Some("0"),
        _ => None,
    }
}

/// Level-local origin of one argument (before global propagation).
fn local_origin(a: &ArgSpec, occs: &[&Occ], env: &BTreeMap<String, Vec<u8>>, explicit_now: &BTreeMap<String, Vec<Vec<u8>>>, errors: &mut Vec<(&'static str, String)>) -> Option<ArgExpect> {
    if !occs.is_empty() {
        let raw: Vec<Vec<Vec<u8>>> = match a.action {
            // a counter with a missing-value default takes that default on every occurrence instead of counting
            Action::Count if !a.default_missing.is_empty() => vec![vec![a.default_missing[0].as_bytes().to_vec()]],
            Action::Count => vec![vec![occs.len().min(255).to_string().into_bytes()]],
            Action::SetTrue => vec![vec![b"true".to_vec()]],
            Action::SetFalse => vec![vec![b"false".to_vec()]],
            Action::Set => {
                let o = occs[occs.len() - 1];
                vec![occ_values(a, o)]
            }
            _ => occs.iter().map(|o| occ_values(a, o)).collect(),
        };
        for g in &raw {
            for v in g {
                if let Err(why) = value_ok(a, v) {
                    errors.push((if why == "non-utf8" { "value-non-utf8" } else { "value" }, a.id.clone()));
                }
            }
        }
        return Some(ArgExpect { src: Src::Cli, raw });
    }
    if let Some(n) = env_name(a) {
        if let Some(v) = env.get(n) {
            let vals = split_delim(v, a.value_delimiter);
            for x in &vals {
                if let Err(why) = value_ok(a, x) {
                    errors.push((if why == "non-utf8" { "value-non-utf8" } else { "value" }, a.id.clone()));
                }
            }
            return Some(ArgExpect { src: Src::Env, raw: vec![vals] });
        }
    }
    for (other, eq, dv) in &a.default_ifs {
        let hit = match explicit_now.get(other) {
            Some(vals) => match eq {
                Some(v) => vals.iter().any(|x| x == v.as_bytes()),
                None => true,
            },
            None => false,
        };
        if hit {
            if let Some(d) = dv {
                for x in split_delim(d.as_bytes(), a.value_delimiter) {
                    if let Err(why) = value_ok(a, &x) {
                        errors.push((if why == "non-utf8" { "value-non-utf8" } else { "value" }, a.id.clone()));
                    }
                }
            }
            return dv.as_ref().map(|d| ArgExpect {
                src: Src::Default,
                raw: vec![split_delim(d.as_bytes(), a.value_delimiter)],
            });
        }
    }
    if !a.default_values.is_empty() {
        let mut vals = Vec::new();
        for d in &a.default_values {
            vals.extend(split_delim(&d.0, a.value_delimiter));
        }
        return Some(ArgExpect { src: Src::Default, raw: vec![vals] });
    }
    implicit_default(a).map(|d| ArgExpect {
        src: Src::Default,
        raw: vec![vec![d.as_bytes().to_vec()]],
    })
}

fn occ_values(a: &ArgSpec, o: &Occ) -> Vec<Vec<u8>> {
    if o.values.is_empty() {
        // present without a value: the missing-value default applies (possibly split at the delimiter)
        let mut out = Vec::new();
        for d in &a.default_missing {
            out.extend(split_delim(d.as_bytes(), a.value_delimiter));
        }
        return out;
    }
    o.values.iter().map(|v| v.as_bytes().to_vec()).collect()
}

pub fn model(spec: &CmdSpec, intent: &Intent, env: &BTreeMap<String, Vec<u8>>) -> Expect {
    let mut ex = Expect::default();
    // walk the chain
    let mut chain: Vec<&CmdSpec> = vec![spec];
    for (li, l) in intent.levels.iter().enumerate() {
        if let Some(si) = l.sub {
            if let Some(s) = chain[li].subs.get(si) {
                chain.push(s);
            } else {
                break;
            }
        } else {
            break;
        }
    }
    let depth = chain.len();
    // visible args per level: own + globals of ancestors
    let mut visible: Vec<Vec<&ArgSpec>> = Vec::new();
    for li in 0..depth {
        let mut v: Vec<&ArgSpec> = chain[li].args.iter().collect();
        for lj in 0..li {
            for a in chain[lj].args.iter().filter(|a| a.global) {
                if !v.iter().any(|x| x.id == a.id) {
                    v.push(a);
                }
            }
        }
        visible.push(v);
    }
    let mut locals: Vec<BTreeMap<String, ArgExpect>> = Vec::new();
    for li in 0..depth {
        ex.chain.push(chain[li].name.clone());
        let empty = LevelIntent::default();
        let lint = intent.levels.get(li).unwrap_or(&empty);
        let mut m = BTreeMap::new();
        // explicit set and raw values known so far (CLI and env), for default_value_if referents
        let mut explicit_now: BTreeMap<String, Vec<Vec<u8>>> = BTreeMap::new();
        // POSIX-style overrides act on command-line occurrences only, in argv order, in both directions:
        // an occurrence of X removes every earlier occurrence of an argument that overrides or is overridden by X
        let overrides_pair = |p: &str, q: &str| visible[li].iter().any(|a| (a.id == p && a.overrides.iter().any(|o| o == q)) || (a.id == q && a.overrides.iter().any(|o| o == p)));
        let mut effective: Vec<Occ> = Vec::new();
        for o in &lint.occs {
            effective.retain(|e| e.arg == o.arg || !overrides_pair(&e.arg, &o.arg));
            effective.push(o.clone());
        }
        // values are parsed when the occurrence is read, so a bad value is reported even if the
        // occurrence is overridden later
        for o in &lint.occs {
            if !effective.iter().any(|e| std::ptr::eq(e as *const Occ, o as *const Occ)) {
                if let Some(a) = visible[li].iter().find(|a| a.id == o.arg) {
                    for v in occ_values(a, o) {
                        if let Err(why) = value_ok(a, &v) {
                            ex.errors.push((if why == "non-utf8" { "value-non-utf8" } else { "value" }, a.id.clone()));
                        }
                    }
                }
            }
        }
        let lint = &LevelIntent { occs: effective, sub: lint.sub };
        for a in &visible[li] {
            let occs: Vec<&Occ> = lint.occs.iter().filter(|o| o.arg == a.id).collect();
            if !occs.is_empty() {
                let mut vals = Vec::new();
                for o in &occs {
                    vals.extend(occ_values(a, o));
                }
                explicit_now.insert(a.id.clone(), vals);
            } else if let Some(v) = env_name(a).and_then(|n| env.get(n)) {
                explicit_now.insert(a.id.clone(), split_delim(v, a.value_delimiter));
            }
        }
        for a in &visible[li] {
            let occs: Vec<&Occ> = lint.occs.iter().filter(|o| o.arg == a.id).collect();
            if let Some(e) = local_origin(a, &occs, env, &explicit_now, &mut ex.errors) {
                m.insert(a.id.clone(), e);
            }
        }
        // rules on the explicit set of this level
        let x = |id: &str| m.get(id).map(|e| e.src != Src::Default).unwrap_or(false);
        let n_explicit = visible[li].iter().filter(|a| x(&a.id)).count();
        let has_sub = li + 1 < depth;
        if chain[li].has(CmdSetting::ArgRequiredElseHelp) && !has_sub && n_explicit == 0 {
            ex.errors.push(("help-on-missing", chain[li].name.clone()));
        }
        let lvl = chain[li];
        // direct conflicts of an argument: its own, its overrides, and what its groups bring
        let dc = |id: &str| -> Vec<String> {
            let mut v: Vec<String> = Vec::new();
            if let Some(a) = lvl.args.iter().find(|a| a.id == id) {
                v.extend(a.conflicts.iter().cloned());
                v.extend(a.overrides.iter().cloned());
            }
            for g in lvl.groups.iter().filter(|g| g.args.iter().any(|m| m == id)) {
                v.extend(g.conflicts.iter().cloned());
                if !g.multiple {
                    v.extend(g.args.iter().filter(|m| *m != id).cloned());
                }
            }
            v
        };
        let conflicting = |p: &str, q: &str| p != q && (dc(p).iter().any(|c| c == q) || dc(q).iter().any(|c| c == p));
        let explicit_ids: Vec<&str> = visible[li].iter().filter(|a| x(&a.id)).map(|a| a.id.as_str()).collect();
        let exclusive_present = lvl.args.iter().any(|a| a.exclusive && x(&a.id));
        for a in &lvl.args {
            if a.exclusive && x(&a.id) && n_explicit > 1 {
                ex.errors.push(("conflict", a.id.clone()));
            }
            if x(&a.id) && explicit_ids.iter().any(|o| conflicting(&a.id, o)) {
                ex.errors.push(("conflict", a.id.clone()));
            }
        }
        // a missing required argument is excused when something explicit conflicts with it
        let excused = |id: &str| explicit_ids.iter().any(|o| conflicting(id, o));
        if !exclusive_present {
            for a in &lvl.args {
                for r in &a.requires {
                    if x(&a.id) && !x(r) && !excused(r) {
                        ex.errors.push(("missing", r.clone()));
                    }
                }
                if a.required && !x(&a.id) && !excused(&a.id) {
                    ex.errors.push(("missing", a.id.clone()));
                }
                if !a.required_unless.is_empty() && !x(&a.id) && !a.required_unless.iter().any(|u| x(u)) {
                    ex.errors.push(("missing", a.id.clone()));
                }
            }
        }
        // a required GROUP is demanded even when an exclusive argument is present
        for g in &lvl.groups {
            if g.required && !g.args.iter().any(|id| x(id)) {
                ex.errors.push(("missing", g.id.clone()));
            }
        }
        locals.push(m);
    }
    // global propagation: an explicit command-line occurrence anywhere in the chain wins at every level
    let mut finals = locals.clone();
    for li in 0..depth {
        for a in chain[li].args.iter().filter(|a| a.global) {
            let mut best: Option<ArgExpect> = None;
            for lj in li..depth {
                if let Some(e) = locals[lj].get(&a.id) {
                    if e.src == Src::Cli {
                        best = Some(e.clone());
                    }
                }
            }
            if let Some(b) = best {
                for lj in li..depth {
                    finals[lj].insert(a.id.clone(), b.clone());
                }
            }
        }
    }
    for li in 0..depth {
        ex.args_present.push(finals[li].values().any(|e| e.src != Src::Default));
    }
    ex.levels = finals;
    ex
}

// ------------------------------------------------------------------------------------------
// argv printing

pub fn print_intent(spec: &CmdSpec, intent: &Intent) -> Vec<OsString> {
    let mut out: Vec<OsString> = vec![OsString::from("prog")];
    let mut level = spec;
    let mut inherited: Vec<&ArgSpec> = Vec::new();
    for l in &intent.levels {
        for o in &l.occs {
            let a = match level.args.iter().chain(inherited.iter().copied()).find(|a| a.id == o.arg) {
                Some(a) => a,
                None => continue,
            };
            if a.is_positional() {
                for v in &o.values {
                    out.push(OsString::from(v));
                }
                continue;
            }
            let long = a.long.as_ref().map(|l| format!("--{l}"));
            let short = a.short.map(|s| format!("-{s}"));
            if o.values.is_empty() {
                let sp = match (o.form >= 2, &short, &long) {
                    (true, Some(s), _) => s.clone(),
                    (_, _, Some(l)) => l.clone(),
                    (_, Some(s), None) => s.clone(),
                    _ => continue,
                };
                out.push(OsString::from(sp));
                continue;
            }
            let joined = match a.value_delimiter {
                Some(d) => o.values.join(&d.to_string()),
                None => o.values[0].clone(),
            };
            let must_attach = a.require_equals || joined.starts_with('-') || joined.is_empty();
            let form = match (o.form, &short, &long) {
                (0 | 1, _, None) => 4,
                (2..=4, None, _) => 0,
                (f, _, _) => f,
            };
            let form = if must_attach && (form == 1) {
                0
            } else if must_attach && (form == 2 || form == 3) {
                4
            } else {
                form
            };
            match form {
                0 => out.push(OsString::from(format!("{}={joined}", long.unwrap()))),
                1 => {
                    out.push(OsString::from(long.unwrap()));
                    out.push(OsString::from(joined));
                }
                2 => {
                    out.push(OsString::from(short.unwrap()));
                    out.push(OsString::from(joined));
                }
                3 => out.push(OsString::from(format!("{}{joined}", short.unwrap()))),
                _ => out.push(OsString::from(format!("{}={joined}", short.unwrap()))),
            }
        }
        match l.sub.and_then(|i| level.subs.get(i)) {
            Some(s) => {
                out.push(OsString::from(&s.name));
                for a in level.args.iter().filter(|a| a.global) {
                    inherited.push(a);
                }
                level = s;
            }
            None => break,
        }
    }
    out
}

// ------------------------------------------------------------------------------------------
// Generation

fn gen_c06_value(rng: &mut Rng, a: &ArgSpec, bad_rate: u64) -> String {
    let bad = rng.below(100) < bad_rate;
    match &a.parser {
        ValParser::I64 { lo, hi } => {
            if bad {
                (*rng.pick(&["abc", "1x", "99999999999999999999999", ""])).to_string()
            } else {
                match rng.below(4) {
                    0 => lo.to_string(),
                    1 => hi.to_string(),
                    _ => rng.range((*lo).max(-50), (*hi).min(50)).to_string(),
                }
            }
        }
        ValParser::Possible(pvs) => {
            if bad {
                "nope".into()
            } else {
                let p = rng.pick(pvs);
                if !p.aliases.is_empty() && rng.chance(1, 3) {
                    p.aliases[0].clone()
                } else {
                    p.name.clone()
                }
            }
        }
        _ => (*rng.pick(&["v1", "v2", "x9", "val", "7", "k=v", "a.b"])).to_string(),
    }
}

fn gen_env_bytes(rng: &mut Rng, a: &ArgSpec, faulty: bool) -> B {
    let k = if faulty { rng.below(10) } else { 9 };
    match a.action {
        Action::SetTrue | Action::SetFalse => match k {
            0 => B::s(""),
            1 => B(vec![0xff, 0xfe]),
            2 => B::s("1"),
            3 => B::s("junk"),
            _ => B::s(*rng.pick(&["true", "false"])),
        },
        Action::Count => match k {
            0 => B::s(""),
            1 => B::s("256"),
            2 => B::s("-1"),
            3 => B(vec![b'3', 0xff]),
            _ => B::s(*rng.pick(&["0", "3", "255"])),
        },
        _ if matches!(a.parser, ValParser::Os | ValParser::Path) && (k == 5 || k == 6 || (!faulty && rng.chance(1, 4))) => B(vec![b'v', 0xff, b'x']),
        _ => match k {
            0 => B::s(""),
            1 => B(vec![b'v', 0xff, b'x']),
            2 => B::s(&gen_c06_value(rng, a, 100)),
            3 => match a.value_delimiter {
                Some(d) => B::s(&format!("{}{d}{}", gen_c06_value(rng, a, 0), gen_c06_value(rng, a, 0))),
                None => B::s(&gen_c06_value(rng, a, 0)),
            },
            _ => B::s(&gen_c06_value(rng, a, 0)),
        },
    }
}

fn gen_level(rng: &mut Rng, n: &mut usize, shorts: &mut Vec<char>, prefix: &str, depth_left: usize, level: usize, is_chain: bool) -> CmdSpec {
    let mut c = CmdSpec::default();
    *n += 1;
    c.name = if level == 0 { "prog".into() } else { format!("sub{:03}", *n) };
    let n_args = rng.urange(1, 5);
    for _ in 0..n_args {
        *n += 1;
        let k = *n;
        let action = match rng.below(12) {
            0..=4 => Action::Set,
            5 | 6 => Action::Append,
            7 | 8 => Action::SetTrue,
            9 => Action::SetFalse,
            _ => Action::Count,
        };
        let mut a = ArgSpec::new(&format!("a{k:03}"), action);
        if action == Action::Count && rng.chance(1, 4) {
            a.default_missing = vec!["7".to_string()];
        }
        a.long = Some(format!("opt{k:03}"));
        if rng.chance(1, 2) {
            a.short = shorts.pop();
        }
        if action.takes_values() {
            a.parser = match rng.below(6) {
                0 => ValParser::I64 { lo: *rng.pick(&[-5, 0, 1]), hi: *rng.pick(&[5, 10, 255]) },
                1 => ValParser::Possible(vec![
                    PvSpec { name: format!("pv{k:03}a"), aliases: vec![format!("pal{k:03}")], ..Default::default() },
                    PvSpec { name: format!("pv{k:03}b"), ..Default::default() },
                ]),
                2 => ValParser::Os,
                _ => ValParser::Str,
            };
            if rng.chance(1, 4) {
                a.value_delimiter = Some(',');
            }
            if rng.chance(1, 4) {
                a.num_args = Some((0, Some(1)));
                // without require_equals a value-less occurrence is only printed where the next token is
                // another option (see gen_intent)
                a.require_equals = rng.chance(2, 3);
                if rng.chance(2, 3) {
                    a.default_missing = vec![gen_c06_value(rng, &a, 0)];
                }
            }
            if rng.chance(1, 2) {
                let kk = if a.value_delimiter.is_some() && rng.chance(1, 3) { 2 } else { 1 };
                a.default_values = (0..kk).map(|_| B::s(&gen_c06_value(rng, &a, 0))).collect();
            }
        }
        if rng.chance(1, 2) {
            a.env = Some(format!("{prefix}A{k:03}"));
        }
        if level < 2 && depth_left > 0 && is_chain && rng.chance(1, 4) {
            a.global = true;
        }
        c.args.push(a);
    }
    // conditional defaults on referents without defaults (up to two entries on one argument: the first
    // satisfied entry wins)
    for _ in 0..rng.weighted(&[4, 3, 2]) {
        // no chains: a referent never has a default of any kind (clap looks the referent up with
        // `matcher.get`, so a referent that is itself defaulted counts as present depending on argument
        // order -- outside the statement), and a target is never a referent
        let used_as_referent: Vec<String> = c.args.iter().flat_map(|a| a.default_ifs.iter().map(|d| d.0.clone())).collect();
        let referents: Vec<String> = c.args.iter().filter(|a| a.action.takes_values() && a.default_values.is_empty() && a.default_ifs.is_empty() && !a.global).map(|a| a.id.clone()).collect();
        let targets: Vec<usize> = c.args.iter().enumerate().filter(|(_, a)| a.action.takes_values() && !a.global && !used_as_referent.contains(&a.id)).map(|(i, _)| i).collect();
        if let (Some(r), Some(t)) = (rng.pick_opt(&referents).cloned(), rng.pick_opt(&targets).copied()) {
            if c.args[t].id != r {
                let dv = gen_c06_value(rng, &c.args[t], 0);
                // (`v\u{fffd}x` is what a lossy conversion makes of the non-UTF-8 value `v\xffx`: not equal to it)
                let eq = match rng.below(5) {
                    0 | 1 => Some("v1".to_string()),
                    2 => Some("v\u{fffd}x".to_string()),
                    _ => None,
                };
                if eq.as_deref() == Some("v\u{fffd}x") {
                    // the referent can then really hold the non-UTF-8 look-alike: an OS-string argument with an
                    // environment variable
                    if let Some(ra) = c.args.iter_mut().find(|a| a.id == r) {
                        if !matches!(ra.parser, ValParser::Possible(_)) && ra.action.takes_values() {
                            ra.parser = ValParser::Os;
                            ra.default_missing.clear();
                            if ra.env.is_none() {
                                ra.env = Some(format!("{prefix}R{}", ra.id));
                            }
                        }
                    }
                }
                // (now and then a conditional default the argument's own value parser rejects: a value error when
                // the condition holds)
                let dv = if rng.chance(1, 8) && matches!(c.args[t].parser, ValParser::I64 { .. } | ValParser::Possible(_)) { "not-in-language".to_string() } else { dv };
                c.args[t].default_ifs.push((r, eq, if rng.chance(1, 5) { None } else { Some(dv) }));
            }
        }
    }
    // up to two relation items among non-global args
    let locals: Vec<usize> = c.args.iter().enumerate().filter(|(_, a)| !a.global).map(|(i, _)| i).collect();
    let n_rel = if locals.len() >= 2 { rng.weighted(&[4, 4, 2]) } else { 0 };
    for _ in 0..n_rel {
        let i = *rng.pick(&locals);
        let mut j = *rng.pick(&locals);
        if i == j {
            j = *locals.iter().find(|x| **x != i).unwrap();
        }
        let (ida, idb) = (c.args[i].id.clone(), c.args[j].id.clone());
        match rng.below(9) {
            0 => c.args[i].conflicts.push(idb),
            1 => c.args[i].requires.push(idb),
            2 => {
                if c.args[i].required_unless.is_empty() {
                    c.args[i].required = true
                }
            }
            3 => {
                if !c.args[i].required {
                    c.args[i].required_unless.push(idb)
                }
            }
            4 => {
                if !c.args.iter().any(|a| a.global) && !c.args[i].required {
                    c.args[i].exclusive = true
                }
            }
            5 | 6 => {
                // (groups outlive the removal of an overridden member, which the model does not describe:
                // overrides and groups are not combined at one level)
                if c.groups.is_empty() && c.args.iter().all(|a| a.overrides.is_empty()) {
                    let third: Vec<String> = c.args.iter().filter(|a| !a.global && a.id != ida && a.id != idb).map(|a| a.id.clone()).collect();
                    let conflicts = match (rng.chance(1, 2), rng.pick_opt(&third)) {
                        (true, Some(t)) => vec![t.clone()],
                        _ => vec![],
                    };
                    c.groups.push(GroupSpec { id: format!("g{:03}", *n), args: vec![ida, idb], required: rng.coin(), multiple: rng.coin(), requires: vec![], conflicts });
                }
            }
            7 => {
                if c.groups.is_empty() && !c.args[i].overrides.contains(&idb) && !c.args[j].overrides.contains(&ida) {
                    c.args[i].overrides.push(idb)
                }
            }
            _ => c.set(CmdSetting::ArgRequiredElseHelp),
        }
    }
    if depth_left > 0 {
        let n_subs = rng.urange(1, 2);
        for si in 0..n_subs {
            let s = gen_level(rng, n, shorts, prefix, depth_left - 1, level + 1, is_chain && si == 0);
            c.subs.push(s);
        }
    }
    // a positional only where no subcommands follow
    if c.subs.is_empty() && rng.chance(1, 3) {
        *n += 1;
        let k = *n;
        let mut p = ArgSpec::new(&format!("p{k:03}"), Action::Set);
        if rng.chance(1, 2) {
            p.env = Some(format!("{prefix}P{k:03}"));
        }
        if rng.chance(1, 2) {
            p.default_values = vec![B::s("pdef")];
        }
        c.args.push(p);
    }
    c
}

fn gen_intent(rng: &mut Rng, spec: &CmdSpec, faulty: bool) -> Intent {
    let mut intent = Intent::default();
    let mut level = spec;
    let mut globals: Vec<(&ArgSpec, bool)> = Vec::new(); // (arg, already supplied)
    let supply_rate = *rng.pick(&[0u64, 20, 50, 80]);
    let bad_rate = if faulty { *rng.pick(&[0u64, 0, 10]) } else { 0 };
    loop {
        let mut li = LevelIntent::default();
        let mut cands: Vec<&ArgSpec> = level.args.iter().collect();
        let mut order: Vec<usize> = (0..cands.len()).collect();
        rng.shuffle(&mut order);
        for gi in 0..globals.len() {
            if !globals[gi].1 && rng.below(100) < 30 {
                cands.push(globals[gi].0);
                order.push(cands.len() - 1);
                globals[gi].1 = true;
            }
        }
        for i in order {
            let a = cands[i];
            let is_inherited = i >= level.args.len();
            if !is_inherited && rng.below(100) >= supply_rate {
                continue;
            }
            if a.global && !is_inherited {
                // supply a global at exactly one level of the chain
                if rng.coin() {
                    continue;
                }
            }
            let form = rng.below(5) as u8;
            match a.action {
                Action::Count => {
                    for _ in 0..rng.urange(1, 4) {
                        li.occs.push(Occ { arg: a.id.clone(), values: vec![], form });
                    }
                }
                Action::SetTrue | Action::SetFalse => li.occs.push(Occ { arg: a.id.clone(), values: vec![], form }),
                Action::Append => {
                    let n_occ = rng.urange(1, 3);
                    for j in 0..n_occ {
                        let k = if a.value_delimiter.is_some() && rng.chance(1, 3) { 2 } else { 1 };
                        let vals: Vec<String> = (0..k).map(|_| gen_c06_value(rng, a, bad_rate)).collect();
                        // (a value-less occurrence of an option that does not require `=` must be followed by
                        // another option token, here the next occurrence of the same option)
                        let may_be_empty = a.num_args == Some((0, Some(1))) && (a.require_equals || j + 1 < n_occ);
                        let vals = if may_be_empty && rng.chance(1, 3) { vec![] } else { vals };
                        li.occs.push(Occ { arg: a.id.clone(), values: vals, form: rng.below(5) as u8 });
                    }
                }
                _ => {
                    let k = if a.value_delimiter.is_some() && rng.chance(1, 3) { 2 } else { 1 };
                    let vals: Vec<String> = (0..k).map(|_| gen_c06_value(rng, a, bad_rate)).collect();
                    let vals = if a.num_args == Some((0, Some(1))) && a.require_equals && rng.chance(1, 3) { vec![] } else { vals };
                    li.occs.push(Occ { arg: a.id.clone(), values: vals, form });
                }
            }
            if a.global && !is_inherited {
                // mark as supplied for deeper levels
            }
        }
        // positionals must keep their relative position simple: move them to the end of the level
        let (pos, named): (Vec<Occ>, Vec<Occ>) = li.occs.into_iter().partition(|o| level.args.iter().any(|a| a.id == o.arg && a.is_positional()));
        li.occs = named;
        li.occs.extend(pos);
        let descend = !level.subs.is_empty() && rng.chance(3, 4);
        if descend {
            let si = rng.usize(level.subs.len());
            li.sub = Some(si);
            let supplied_here: Vec<String> = li.occs.iter().map(|o| o.arg.clone()).collect();
            for a in level.args.iter().filter(|a| a.global) {
                globals.push((a, supplied_here.contains(&a.id)));
            }
            for g in globals.iter_mut() {
                if supplied_here.contains(&g.0.id) {
                    g.1 = true;
                }
            }
            intent.levels.push(li);
            level = &level.subs[si];
        } else {
            intent.levels.push(li);
            break;
        }
    }
    intent
}

fn all_env_args(spec: &CmdSpec) -> Vec<&ArgSpec> {
    let mut v = Vec::new();
    spec.walk(
        &mut |c, _| {
            for a in &c.args {
                if a.env.is_some() {
                    v.push(a);
                }
            }
        },
        0,
    );
    v
}

impl Engine for EnvSim {
    type Sc = C06Sc;
    fn prop(&self) -> &'static str {
        "C06"
    }
    fn meta(&self) -> Meta {
        Meta {
            engine: "cmdsim/envsim",
            level: "exploration",
            rule: "a scenario is a command tree (<= 3 levels, <= 6 source-carrying arguments per level: env, default_value(s), default_value_if, default_missing_value, actions Set/Append/SetTrue/SetFalse/Count, optional values, delimiters, globals, one relation per level) plus a timeline of <= 10 events: SetEnv/UnsetEnv on the real process environment of the single-threaded worker, Define (clap snapshots the variable here), Parse of an argv printed from an intent (re-parse on the same Command when no Define intervenes). Fault kinds on the environment: unset, empty value, non-UTF-8 bytes, value outside the parser's language, variable set for a flag, variable changed or removed between Define and Parse. Non-trivial = a timeline with >= 1 environment event that fired and >= 1 parse compared with the model; distinct = distinct scenario hash. Added during the build phase: overrides, group conflicts, up to two conditional defaults per argument (incl. ones the parser rejects and the lossy look-alike needle), optional values with and without `=`, counters with a missing-value default, and recovering parses (the line plus one unparsable token under ignore_errors)",
            real_components: &["clap_builder::Arg::env (std::env::var_os at definition)", "Parser::add_env / add_defaults / react", "Validator (explicit-ness)", "ArgMatches::value_source / get_raw_occurrences / args_present", "the real process environment (setenv/unsetenv)"],
            stub_components: &["reference model of origin/precedence and of the restricted relation vocabulary (about 150 lines, no clap code)"],
            workload_only_clauses: &["which mix of default/env/default-if/default-missing sits on one argument is configuration; the simulator contributes the environment timeline"],
            assumptions: &["relations are restricted to one instance per level among non-global arguments so that the model's rule semantics are exact", "when the variable changed between Define and Parse (fault-injecting configuration only) the result may match the model under the definition-time or the parse-time environment", "a predicted failure accepts any of the predicted error classes (clap's reporting order is not modelled)"],
            abort_is_violation: false,
        }
    }
    fn runs(&self, tier: Tier) -> u64 {
        match tier {
            Tier::Quick => 600_000,
            Tier::Thorough => 30_000_000,
        }
    }
    fn heartbeat(&self) -> u64 {
        512
    }

    fn gen(&self, rng: &mut Rng, _tier: Tier) -> C06Sc {
        let faulty = rng.coin();
        let prefix = format!("CLAPSIM_{:04X}_", rng.below(0x10000));
        let mut n = 10usize;
        let mut shorts: Vec<char> = "abcdefgijklmnopqrstuwxyz".chars().collect();
        rng.shuffle(&mut shorts);
        let depth = rng.usize(3);
        let spec = gen_level(rng, &mut n, &mut shorts, &prefix, depth, 0, true);
        let env_args = all_env_args(&spec);
        let mut tl = Vec::new();
        let env_ev = |rng: &mut Rng, tl: &mut Vec<Ev>, faulty: bool| {
            if let Some(a) = rng.pick_opt(&env_args) {
                let name = a.env.clone().unwrap();
                if rng.chance(1, 4) {
                    tl.push(Ev::UnsetEnv(name));
                } else {
                    tl.push(Ev::SetEnv(name, gen_env_bytes(rng, a, faulty)));
                }
            }
        };
        for _ in 0..rng.usize(4) {
            env_ev(rng, &mut tl, faulty);
        }
        tl.push(Ev::Define);
        let n_parse = rng.urange(1, 3);
        for pi in 0..n_parse {
            if faulty && rng.chance(1, 2) {
                for _ in 0..rng.urange(1, 2) {
                    env_ev(rng, &mut tl, faulty);
                }
            }
            if rng.chance(1, 4) {
                tl.push(Ev::Recover(gen_intent(rng, &spec, false), rng.below(3) as u8));
            } else {
                tl.push(Ev::Parse(gen_intent(rng, &spec, faulty)));
            }
            if pi + 1 < n_parse && rng.chance(1, 3) {
                for _ in 0..rng.usize(3) {
                    env_ev(rng, &mut tl, faulty);
                }
                tl.push(Ev::Define);
            }
        }
        C06Sc { spec, timeline: tl, faulty }
    }

    fn exec(&self, sc: &C06Sc, log: &mut Log) -> Outcome {
        let mut out = Outcome::default();
        if let Err(why) = gate(&sc.spec) {
            out.count("misc.specs_rejected_by_gate");
            ev!(log, "gate rejected: {why}");
            return out;
        }
        let mut touched: Vec<String> = Vec::new();
        let r = catch(|| exec_timeline(sc, log, &mut out, &mut touched));
        for n in &touched {
            std::env::remove_var(n);
        }
        if let Err(p) = r {
            if panic_in_harness(&p) {
                out.violate("HARNESS-PANIC", short_file(&p), format!("{} at {}", p.msg, p.loc));
            } else {
                out.violate("panic", short_file(&p), format!("{} at {}", p.msg, p.loc));
            }
        }
        out
    }

    fn shrink(&self, sc: &C06Sc) -> Vec<C06Sc> {
        let mut c = Vec::new();
        for i in 0..sc.timeline.len() {
            if matches!(sc.timeline[i], Ev::Define) && sc.timeline.iter().filter(|e| matches!(e, Ev::Define)).count() == 1 {
                continue;
            }
            let mut s = sc.clone();
            s.timeline.remove(i);
            c.push(s);
        }
        for sp in shrink_spec(&sc.spec) {
            let mut s = sc.clone();
            s.spec = sp;
            c.push(s);
        }
        for i in 0..sc.timeline.len() {
            if let Ev::Parse(int) = &sc.timeline[i] {
                for (li, l) in int.levels.iter().enumerate() {
                    for oi in 0..l.occs.len() {
                        let mut s = sc.clone();
                        if let Ev::Parse(x) = &mut s.timeline[i] {
                            x.levels[li].occs.remove(oi);
                        }
                        c.push(s);
                    }
                    if l.sub.is_some() {
                        let mut s = sc.clone();
                        if let Ev::Parse(x) = &mut s.timeline[i] {
                            x.levels[li].sub = None;
                            x.levels.truncate(li + 1);
                        }
                        c.push(s);
                    }
                }
            }
            if let Ev::SetEnv(n, v) = &sc.timeline[i] {
                if v.0 != b"v1" {
                    let mut s = sc.clone();
                    s.timeline[i] = Ev::SetEnv(n.clone(), B::s("v1"));
                    c.push(s);
                }
            }
        }
        c
    }
}

fn src_of(v: Option<ValueSource>) -> Option<Src> {
    match v {
        Some(ValueSource::CommandLine) => Some(Src::Cli),
        Some(ValueSource::EnvVariable) => Some(Src::Env),
        Some(ValueSource::DefaultValue) => Some(Src::Default),
        _ => None,
    }
}

fn class_of_kind(k: ErrorKind) -> &'static [&'static str] {
    match k {
        ErrorKind::InvalidValue | ErrorKind::ValueValidation => &["value", "value-non-utf8"],
        ErrorKind::InvalidUtf8 => &["value-non-utf8"],
        ErrorKind::ArgumentConflict => &["conflict"],
        ErrorKind::MissingRequiredArgument => &["missing"],
        ErrorKind::DisplayHelpOnMissingArgumentOrSubcommand => &["help-on-missing"],
        _ => &[],
    }
}

/// Compare a real parse outcome with one model expectation; None = agrees.
fn check_against(spec: &CmdSpec, ex: &Expect, real: &POut) -> Option<(&'static str, String, String)> {
    check_against_skipping(spec, ex, real, None)
}

fn check_against_skipping(spec: &CmdSpec, ex: &Expect, real: &POut, skip: Option<&str>) -> Option<(&'static str, String, String)> {
    match real {
        POut::Panic { msg, file } => Some(("panic", file.clone(), format!("parse panicked: {msg}"))),
        POut::Err { kind, rendered, .. } => {
            if ex.errors.is_empty() {
                return Some(("unexpected-error", format!("{kind:?}"), format!("the model predicts success, clap answered {kind:?}: {rendered}")));
            }
            let classes = class_of_kind(*kind);
            let hit = ex.errors.iter().find(|(c, _)| classes.contains(c));
            match hit {
                None => Some(("wrong-error-class", format!("{kind:?}"), format!("clap answered {kind:?} but the model predicts only {:?}: {rendered}", ex.errors))),
                Some(_) => {
                    if *kind == ErrorKind::MissingRequiredArgument {
                        // the arguments reported as "not provided" do not include one that was supplied -- on the
                        // command line or through its environment variable
                        let listed: Vec<&str> = rendered.lines().skip_while(|l| !l.contains("not provided")).skip(1).take_while(|l| l.starts_with("  ")).collect();
                        for exp in &ex.levels {
                            for (id, e) in exp {
                                if e.src == Src::Default {
                                    continue;
                                }
                                let Some(a) = find_arg(spec, id) else { continue };
                                let named = listed.iter().any(|l| {
                                    let t = l.trim_start();
                                    a.long.as_ref().map(|x| t == format!("--{x}") || t.starts_with(&format!("--{x} ")) || t.starts_with(&format!("--{x}="))).unwrap_or(false)
                                        || (a.long.is_none() && a.short.map(|c| t == format!("-{c}") || t.starts_with(&format!("-{c} "))).unwrap_or(false))
                                });
                                if named {
                                    return Some(("missing-names-supplied-argument", format!("{:?}", e.src), format!("argument {id} was supplied ({:?}) but the error lists it as not provided: {rendered}", e.src)));
                                }
                            }
                        }
                    }
                    if matches!(kind, ErrorKind::InvalidValue | ErrorKind::ValueValidation) {
                        // a value error must name an argument the model blames
                        let named = ex.errors.iter().filter(|(c, _)| *c == "value" || *c == "value-non-utf8").any(|(_, id)| {
                            find_arg(spec, id).map(|a| a.long.as_ref().map(|l| rendered.contains(&format!("--{l}"))).unwrap_or(false) || a.short.map(|s| rendered.contains(&format!("-{s}"))).unwrap_or(false) || rendered.contains(&a.id) || a.is_positional()).unwrap_or(true)
                        });
                        if !named {
                            return Some(("value-error-names-no-argument", format!("{kind:?}"), format!("value error does not name the argument the model blames {:?}: {rendered}", ex.errors)));
                        }
                    }
                    None
                }
            }
        }
        POut::Ok { m, .. } => {
            if !ex.errors.is_empty() {
                return Some(("missed-error", ex.errors[0].0.to_string(), format!("the model predicts a failure {:?} but the parse succeeded", ex.errors)));
            }
            let mut cur: &ArgMatches = m;
            let mut level_spec = spec;
            let mut inherited: Vec<&ArgSpec> = Vec::new();
            for (li, exp) in ex.levels.iter().enumerate() {
                let ids: Vec<&ArgSpec> = level_spec.args.iter().chain(inherited.iter().copied()).collect();
                for a in &ids {
                    if skip == Some(a.id.as_str()) {
                        continue;
                    }
                    let got_src = match catch(|| cur.value_source(&a.id)) {
                        Ok(s) => src_of(s),
                        Err(p) => return Some(("panic", "value_source".into(), format!("value_source({}) panicked: {}", a.id, p.msg))),
                    };
                    let got_raw: Option<Vec<Vec<Vec<u8>>>> = cur.try_get_raw_occurrences(&a.id).ok().flatten().map(|occ| occ.map(|g| g.map(|v| v.as_bytes().to_vec()).collect()).collect());
                    let got_contains = cur.try_contains_id(&a.id).unwrap_or(false);
                    let want = exp.get(&a.id);
                    let want_src = want.map(|w| w.src.clone());
                    if got_src != want_src {
                        return Some(("source", a_kind(a), format!("level {li} ({}), argument {}: value_source = {:?}, the model says {:?}", ex.chain[li], a.id, got_src, want_src)));
                    }
                    if got_contains != want.is_some() {
                        return Some(("contains", a_kind(a), format!("level {li}, argument {}: contains_id = {got_contains}, the model says {}", a.id, want.is_some())));
                    }
                    let want_raw = want.map(|w| w.raw.clone());
                    // an occurrence group with no values is reported by clap as an empty group
                    if got_raw != want_raw {
                        let show = |r: &Option<Vec<Vec<Vec<u8>>>>| r.as_ref().map(|o| o.iter().map(|g| g.iter().map(|v| esc(v)).collect::<Vec<_>>()).collect::<Vec<_>>());
                        return Some(("raw-values", a_kind(a), format!("level {li}, argument {} (source {:?}): raw occurrences = {:?}, the model says {:?}", a.id, got_src, show(&got_raw), show(&want_raw))));
                    }
                }
                // a group's reported source is the strongest origin among its explicit members
                for g in &level_spec.groups {
                    if skip.map(|s| g.args.iter().any(|x| x == s)).unwrap_or(false) {
                        continue;
                    }
                    let mut best: Option<Src> = None;
                    for id in &g.args {
                        if let Some(e) = exp.get(id) {
                            best = match (best, &e.src) {
                                (_, Src::Default) => best_keep(best),
                                (Some(Src::Cli), _) | (_, Src::Cli) => Some(Src::Cli),
                                _ => Some(Src::Env),
                            };
                        }
                    }
                    let got = src_of(cur.value_source(&g.id));
                    if got != best {
                        return Some(("source", "group".into(), format!("level {li}, group {}: value_source = {:?}, the strongest origin among its explicit members is {:?}", g.id, got, best)));
                    }
                }
                let got_present = cur.args_present();
                // clap copies an explicitly supplied global argument into the matches of every level,
                // including levels above its definition; the statement only says that defaults never
                // count as presence, so `true` is tolerated when some global is explicit in the chain
                let explicit_global_somewhere = ex.levels.iter().any(|l| l.iter().any(|(id, e)| e.src != Src::Default && find_arg(spec, id).map(|a| a.global).unwrap_or(false)));
                if got_present != ex.args_present[li] && !(got_present && explicit_global_somewhere) && skip.is_none() {
                    return Some(("args-present", "level".into(), format!("level {li}: args_present = {got_present}, the model says {}", ex.args_present[li])));
                }
                if li + 1 < ex.levels.len() {
                    match cur.subcommand() {
                        Some((name, sub)) if name == ex.chain[li + 1] => {
                            for a in level_spec.args.iter().filter(|a| a.global) {
                                inherited.push(a);
                            }
                            level_spec = level_spec.subs.iter().find(|s| s.name == name).unwrap();
                            cur = sub;
                        }
                        other => return Some(("chain", "subcommand".into(), format!("level {li}: subcommand = {:?}, intent says {}", other.map(|x| x.0), ex.chain[li + 1]))),
                    }
                } else if let Some((name, _)) = cur.subcommand() {
                    return Some(("chain", "subcommand".into(), format!("level {li}: unexpected subcommand {name}")));
                }
            }
            None
        }
    }
}

fn best_keep(b: Option<Src>) -> Option<Src> {
    b
}

fn a_kind(a: &ArgSpec) -> String {
    format!("{:?}{}{}", a.action, if a.global { "/global" } else { "" }, if a.is_positional() { "/positional" } else { "" })
}

fn find_arg<'a>(spec: &'a CmdSpec, id: &str) -> Option<&'a ArgSpec> {
    if let Some(a) = spec.args.iter().find(|a| a.id == id) {
        return Some(a);
    }
    spec.subs.iter().find_map(|s| find_arg(s, id))
}

fn exec_timeline(sc: &C06Sc, log: &mut Log, out: &mut Outcome, touched: &mut Vec<String>) {
    let mut env_now: BTreeMap<String, Vec<u8>> = BTreeMap::new();
    let mut env_def: BTreeMap<String, Vec<u8>> = BTreeMap::new();
    let mut cmd: Option<clap::Command> = None;
    let mut shape = ShapeHasher::new();
    shape.add(sc.spec.feature_bits());
    let mut env_events = 0u64;
    let mut parses_since_define = 0;
    for (i, e) in sc.timeline.iter().enumerate() {
        out.steps += 1;
        match e {
            Ev::SetEnv(n, v) => {
                if !n.starts_with("CLAPSIM_") || v.0.contains(&0) {
                    continue;
                }
                std::env::set_var(n, v.as_os());
                if !touched.contains(n) {
                    touched.push(n.clone());
                }
                env_now.insert(n.clone(), v.0.clone());
                env_events += 1;
                shape.add(1);
                let kind = if v.0.is_empty() {
                    "ambient.env_set_empty"
                } else if !v.is_utf8() {
                    "ambient.env_set_non_utf8"
                } else {
                    "ambient.env_set"
                };
                out.count(kind);
                if cmd.is_some() {
                    out.count("fault.env_changed_after_define");
                }
                ev!(log, "{i} setenv {n}={}", v.esc());
            }
            Ev::UnsetEnv(n) => {
                if !n.starts_with("CLAPSIM_") {
                    continue;
                }
                std::env::remove_var(n);
                if env_now.remove(n).is_some() {
                    env_events += 1;
                    if cmd.is_some() {
                        out.count("fault.env_removed_after_define");
                    }
                }
                shape.add(2);
                out.count("ambient.env_unset");
                ev!(log, "{i} unsetenv {n}");
            }
            Ev::Define => {
                cmd = Some(build_cmd(&sc.spec));
                env_def = env_now.clone();
                parses_since_define = 0;
                shape.add(3);
                out.count("op.define");
                ev!(log, "{i} define (snapshot of {} variables)", env_def.len());
            }
            Ev::Recover(intent, kind) => {
                if cmd.is_none() {
                    continue;
                }
                // what the model says about the line without the fault; value errors stop clap at that
                // earlier point, so only lines whose values are all inside their languages are used
                let mut ex = model(&sc.spec, intent, &env_now);
                if ex.errors.iter().any(|(c, _)| *c == "value" || *c == "value-non-utf8") {
                    continue;
                }
                // rule errors are not reported under ignore_errors (validation does not run after a fault)
                ex.errors.clear();
                let mut level = &sc.spec;
                for l in &intent.levels {
                    match l.sub.and_then(|k| level.subs.get(k)) {
                        Some(sub) => level = sub,
                        None => break,
                    }
                }
                let used: Vec<&str> = intent.levels.iter().flat_map(|l| l.occs.iter().map(|o| o.arg.as_str())).collect();
                let flag = level.args.iter().find(|a| !a.takes_values() && a.long.is_some() && !a.global && !used.contains(&a.id.as_str()) && a.overrides.is_empty() && matches!(a.action, Action::SetTrue | Action::SetFalse | Action::Count));
                let (tail, skip): (String, Option<&str>) = match (*kind % 3, flag) {
                    (2, Some(f)) => (format!("--{}=oops", f.long.as_ref().unwrap()), Some(f.id.as_str())),
                    (1, _) => ("-#".to_string(), None),
                    _ => ("--zzunknown".to_string(), None),
                };
                let mut spec2 = sc.spec.clone();
                spec2.set(CmdSetting::IgnoreErrors);
                let mut c2 = build_cmd(&spec2);
                let mut argv = print_intent(&sc.spec, intent);
                argv.push(OsString::from(&tail));
                let real = outcome_of(catch(|| c2.try_get_matches_from_mut(argv.iter().cloned())));
                shape.add(5 + *kind as u64 % 3);
                out.count("op.parse_recovering_from_a_fault");
                out.count_dyn(format!("fault.unparsable_token_under_ignore_errors_{}", ["unknown_long", "unknown_short", "value_for_flag"][if skip.is_some() { 2 } else { (*kind % 3).min(1) as usize }]));
                out.comparisons += 1;
                out.nontrivial = true;
                ev!(log, "{i} recovering parse {:?} -> {}", argv, real.class());
                if let Some((clause, site, detail)) = check_against_skipping(&sc.spec, &ex, &real, skip) {
                    out.violate(clause, format!("recover/{site}"), format!("event {i}, argv {:?} under ignore_errors(true), env {:?}: {detail}", argv, env_now.iter().map(|(k, v)| format!("{k}={}", esc(v))).collect::<Vec<_>>()));
                    break;
                }
            }
            Ev::Parse(intent) => {
                let Some(c) = cmd.as_mut() else { continue };
                let argv = print_intent(&sc.spec, intent);
                let real = outcome_of(catch(|| c.try_get_matches_from_mut(argv.iter().cloned())));
                shape.add(4);
                out.count(if parses_since_define > 0 { "op.reparse_same_command" } else { "op.parse" });
                parses_since_define += 1;
                ev!(log, "{i} parse {:?} -> {}", argv, real.class());
                let ex_def = model(&sc.spec, intent, &env_def);
                out.comparisons += 1;
                if env_events > 0 {
                    out.nontrivial = true;
                }
                for (c, _) in &ex_def.errors {
                    match *c {
                        "value" => out.count("fault.env_or_cli_value_outside_language"),
                        "value-non-utf8" => out.count("fault.non_utf8_value"),
                        _ => {}
                    }
                }
                let mut verdict = check_against(&sc.spec, &ex_def, &real);
                if verdict.is_some() && sc.faulty && env_def != env_now {
                    // narrow relaxation: the variable moved after the definition
                    let ex_now = model(&sc.spec, intent, &env_now);
                    if check_against(&sc.spec, &ex_now, &real).is_none() {
                        out.count("probe.matched_parse_time_environment");
                        verdict = None;
                    }
                }
                if env_def != env_now {
                    out.count("probe.parse_with_moved_environment");
                }
                if let Some((clause, site, detail)) = verdict {
                    out.violate(clause, site, format!("event {i}, argv {:?}, env at definition {:?}: {detail}", argv, env_def.iter().map(|(k, v)| format!("{k}={}", esc(v))).collect::<Vec<_>>()));
                    break;
                }
            }
        }
    }
    out.shape = shape.get();
}
