//! Worker loop, parent orchestration, shrinking, replay, evidence, known findings.
//!
//! Workers are single-threaded processes (re-exec of this binary) with a cleared environment
//! and stdin=/dev/null, stdout/stderr piped; the parent merges their records.

use crate::core::*;
use crate::rng::Rng;
use serde::{Deserialize, Serialize};
use serde_json::{json, Value};
use std::collections::{BTreeMap, BTreeSet, HashSet};
use std::io::{BufRead, BufReader, Read, Write};
use std::path::{Path, PathBuf};
use std::process::{Command, Stdio};
use std::sync::mpsc;
use std::time::{Duration, Instant};

pub fn verif_dir() -> PathBuf {
    std::env::var_os("VERIF_HOME").map(PathBuf::from).unwrap_or_else(|| PathBuf::from("/verif"))
}

pub struct RunRec {
    pub outcome: Outcome,
    pub sc_hash: u64,
    pub log_hash: u64,
    pub log_text: Option<Vec<String>>,
    pub scenario: Option<String>,
}

pub trait DynEngine {
    fn prop(&self) -> &'static str;
    fn meta(&self) -> Meta;
    fn runs(&self, tier: Tier) -> u64;
    fn heartbeat(&self) -> u64;
    fn gen_json(&self, seed: u64, idx: u64, tier: Tier) -> String;
    fn run_idx(&self, seed: u64, idx: u64, tier: Tier, want_json: bool) -> RunRec;
    fn run_json(&self, json: &str, keep_text: bool) -> Result<RunRec, String>;
    fn shrink_json(&self, json: &str, key: &(String, String), budget: usize) -> (String, usize);
    fn fixed_json(&self) -> Vec<(String, String)>;
}

pub struct Dyn<E: Engine>(pub E);

fn exec_guard<E: Engine>(e: &E, sc: &E::Sc, log: &mut Log) -> Outcome {
    match catch(|| e.exec(sc, log)) {
        Ok(o) => o,
        Err(p) => {
            let mut o = Outcome::default();
            if panic_in_harness(&p) {
                o.violate("HARNESS-PANIC", short_file(&p), format!("{} at {}", p.msg, p.loc));
            } else {
                o.violate(
                    "escaped-panic",
                    short_file(&p),
                    format!("panic escaped the engine: {} at {}", p.msg, p.loc),
                );
            }
            o
        }
    }
}

impl<E: Engine> DynEngine for Dyn<E> {
    fn prop(&self) -> &'static str {
        self.0.prop()
    }
    fn meta(&self) -> Meta {
        self.0.meta()
    }
    fn runs(&self, tier: Tier) -> u64 {
        self.0.runs(tier)
    }
    fn heartbeat(&self) -> u64 {
        self.0.heartbeat()
    }
    fn gen_json(&self, seed: u64, idx: u64, tier: Tier) -> String {
        let mut rng = Rng::for_run(seed, self.0.prop(), idx);
        let sc = self.0.gen(&mut rng, tier);
        serde_json::to_string(&sc).unwrap()
    }
    fn run_idx(&self, seed: u64, idx: u64, tier: Tier, want_json: bool) -> RunRec {
        let mut rng = Rng::for_run(seed, self.0.prop(), idx);
        let sc = self.0.gen(&mut rng, tier);
        let mut log = Log::new(false);
        let outcome = exec_guard(&self.0, &sc, &mut log);
        let scenario = if want_json || !outcome.violations.is_empty() {
            Some(serde_json::to_string(&sc).unwrap())
        } else {
            None
        };
        RunRec {
            sc_hash: stable_hash(&sc),
            log_hash: log.hash(),
            log_text: None,
            outcome,
            scenario,
        }
    }
    fn run_json(&self, json: &str, keep_text: bool) -> Result<RunRec, String> {
        let sc: E::Sc = serde_json::from_str(json).map_err(|e| format!("bad scenario: {e}"))?;
        let mut log = Log::new(keep_text);
        let outcome = exec_guard(&self.0, &sc, &mut log);
        Ok(RunRec {
            sc_hash: stable_hash(&sc),
            log_hash: log.hash(),
            log_text: log.text().map(|t| t.to_vec()),
            outcome,
            scenario: Some(serde_json::to_string(&sc).unwrap()),
        })
    }
    fn shrink_json(&self, json: &str, key: &(String, String), budget: usize) -> (String, usize) {
        let mut cur: E::Sc = match serde_json::from_str(json) {
            Ok(s) => s,
            Err(_) => return (json.to_string(), 0),
        };
        let mut steps = 0usize;
        let mut accepted = 0usize;
        'outer: loop {
            let cands = self.0.shrink(&cur);
            for c in cands {
                if steps >= budget {
                    break 'outer;
                }
                steps += 1;
                let mut log = Log::new(false);
                let o = exec_guard(&self.0, &c, &mut log);
                if o.violations.iter().any(|v| v.key() == *key) {
                    cur = c;
                    accepted += 1;
                    continue 'outer;
                }
            }
            break;
        }
        let _ = accepted;
        (serde_json::to_string(&cur).unwrap(), steps)
    }
    fn fixed_json(&self) -> Vec<(String, String)> {
        self.0
            .fixed()
            .into_iter()
            .map(|(n, s)| (n, serde_json::to_string(&s).unwrap()))
            .collect()
    }
}

// ---------------------------------------------------------------------------------------------
// Worker side

#[derive(Serialize, Deserialize, Default, Debug)]
pub struct Summary {
    pub evaluations: u64,
    pub steps: u64,
    pub comparisons: u64,
    pub counters: BTreeMap<String, u64>,
    pub samples: Vec<Value>,
}

#[derive(Serialize, Deserialize, Debug, Clone)]
pub struct VRec {
    pub label: String,
    pub violation: Violation,
    pub scenario: Value,
}

/// The ambient environment is a seam the simulator owns: every variable a worker inherits is
/// removed before the first run (COLUMNS, LINES, NO_COLOR, CLICOLOR*, TERM, SHELL, COMPLETE, ...),
/// so that only scenario events can put one back.
fn scrub_environment() {
    let names: Vec<std::ffi::OsString> = std::env::vars_os().map(|(k, _)| k).collect();
    for k in names {
        if k != "PATH" {
            std::env::remove_var(&k);
        }
    }
}

fn limit_resources() {
    scrub_environment();
    // An unbounded allocation in the code under simulation must abort the worker, not the VM.
    unsafe {
        let lim = libc::rlimit {
            rlim_cur: 6 << 30,
            rlim_max: 6 << 30,
        };
        libc::setrlimit(libc::RLIMIT_AS, &lim);
        let core = libc::rlimit {
            rlim_cur: 0,
            rlim_max: 0,
        };
        libc::setrlimit(libc::RLIMIT_CORE, &core);
    }
}

pub struct WorkerOpts {
    pub seed: u64,
    pub tier: Tier,
    pub from: u64,
    pub to: u64,
    pub hashes: bool,
    pub hb: u64,
    pub fixed: bool,
}

pub fn worker(e: &dyn DynEngine, o: WorkerOpts) -> i32 {
    limit_resources();
    let stdout = std::io::stdout();
    let mut out = std::io::BufWriter::with_capacity(1 << 16, stdout.lock());
    let mut sum = Summary::default();
    let mut distinct: HashSet<u64> = HashSet::new();
    let mut shapes: HashSet<u64> = HashSet::new();
    let mut agg: BTreeMap<std::borrow::Cow<'static, str>, u64> = BTreeMap::new();
    let mut handle = |label: String, rec: RunRec, out: &mut dyn Write, sum: &mut Summary| {
        sum.evaluations += 1;
        sum.steps += rec.outcome.steps;
        sum.comparisons += rec.outcome.comparisons;
        for (k, v) in rec.outcome.counters {
            *agg.entry(k).or_insert(0) += v;
        }
        if rec.outcome.nontrivial && rec.outcome.comparisons > 0 {
            distinct.insert(rec.sc_hash);
            shapes.insert(rec.outcome.shape);
        }
        for v in rec.outcome.violations {
            let sc: Value = rec
                .scenario
                .as_deref()
                .and_then(|s| serde_json::from_str(s).ok())
                .unwrap_or(Value::Null);
            let vr = VRec {
                label: label.clone(),
                violation: v,
                scenario: sc,
            };
            let _ = writeln!(out, "V {}", serde_json::to_string(&vr).unwrap());
        }
    };
    if o.fixed {
        for (name, js) in e.fixed_json() {
            let _ = writeln!(out, "H 0");
            let _ = out.flush();
            match e.run_json(&js, false) {
                Ok(rec) => handle(format!("fixed:{name}"), rec, &mut out, &mut sum),
                Err(err) => {
                    let _ = writeln!(out, "E fixed scenario {name}: {err}");
                }
            }
        }
    }
    let hb = o.hb.max(1);
    for idx in o.from..o.to {
        if (idx - o.from) % hb == 0 {
            let _ = writeln!(out, "H {idx}");
            if out.flush().is_err() {
                // the parent is gone: nobody reads the results
                return 3;
            }
        }
        let want = sum.samples.len() < 3 && (idx - o.from) % 7 == 0;
        let rec = e.run_idx(o.seed, idx, o.tier, want);
        if o.hashes {
            let _ = writeln!(out, "R {idx} {:016x}", rec.log_hash);
        }
        if want && rec.outcome.nontrivial && rec.outcome.violations.is_empty() {
            if let Some(s) = rec.scenario.as_deref().and_then(|s| serde_json::from_str::<Value>(s).ok()) {
                sum.samples.push(s);
            }
        }
        handle(format!("r{idx}"), rec, &mut out, &mut sum);
    }
    // distinct hashes and shapes in batches
    let emit = |tag: &str, set: &HashSet<u64>, out: &mut dyn Write| {
        let mut v: Vec<u64> = set.iter().copied().collect();
        v.sort_unstable();
        for chunk in v.chunks(512) {
            let mut line = String::with_capacity(chunk.len() * 17 + 2);
            line.push_str(tag);
            for x in chunk {
                line.push(' ');
                line.push_str(&format!("{x:016x}"));
            }
            let _ = writeln!(out, "{line}");
        }
    };
    emit("D", &distinct, &mut out);
    emit("P", &shapes, &mut out);
    sum.counters = agg.into_iter().map(|(k, v)| (k.into_owned(), v)).collect();
    let _ = writeln!(out, "S {}", serde_json::to_string(&sum).unwrap());
    let _ = out.flush();
    0
}

// ---------------------------------------------------------------------------------------------
// Parent side

fn self_exe() -> PathBuf {
    // if the binary was rebuilt while this process runs, Linux reports `<path> (deleted)`;
    // the new binary lives at the same path
    let p = std::env::current_exe().expect("current_exe");
    match p.to_str().and_then(|s| s.strip_suffix(" (deleted)")) {
        Some(s) => PathBuf::from(s),
        None => p,
    }
}

fn base_command(perturb: u32) -> Command {
    let mut c = Command::new(self_exe());
    c.env_clear();
    c.env("PATH", "/usr/bin:/bin");
    c.env("LANG", "C");
    c.env("HOME", "/nonexistent");
    if perturb > 0 {
        // Ambient perturbation for determinism self-tests: nothing of this may influence a run.
        c.env("HOME", format!("/tmp/verif-perturb-{perturb}"));
        c.env("LANG", "en_US.UTF-8");
        c.env("LC_ALL", "C.UTF-8");
        c.env("TERM", "xterm-256color");
        c.env("CLICOLOR_FORCE", "1");
        c.env("VERIF_JUNK", "x".repeat(37 * perturb as usize));
        c.env("COLUMNS", "33");
        c.env("LINES", "7");
        c.env("NO_COLOR", "1");
        c.env("SHELL", "/bin/zsh");
        c.env("COMPLETE", "");
    }
    if let Some(v) = std::env::var_os("VERIF_DEBUG_PANICS") {
        c.env("VERIF_DEBUG_PANICS", v);
    }
    c.stdin(Stdio::null());
    c.stdout(Stdio::piped());
    c.stderr(Stdio::piped());
    c
}

#[derive(Default)]
struct Merged {
    sum: Summary,
    distinct: HashSet<u64>,
    shapes: HashSet<u64>,
    violations: Vec<VRec>,
    hashes: BTreeMap<u64, u64>,
    errors: Vec<String>,
    /// (from, to, last heartbeat idx, how it was lost)
    lost: Vec<(u64, u64, u64, String)>,
}

enum Msg {
    Line(usize, String),
    Done(usize, Option<i32>, String),
}

struct Slot {
    from: u64,
    to: u64,
    last_hb: u64,
    last_seen: Instant,
    done: bool,
    got_summary: bool,
    child: std::process::Child,
}

#[allow(clippy::too_many_arguments)]
fn run_workers(
    prop: &str,
    seed: u64,
    tier: Tier,
    ranges: &[(u64, u64)],
    hashes: bool,
    hb: u64,
    perturb: u32,
    fixed_in_first: bool,
    hang_timeout: Duration,
) -> Merged {
    let (tx, rx) = mpsc::channel::<Msg>();
    let mut slots: Vec<Slot> = Vec::new();
    for (i, (from, to)) in ranges.iter().enumerate() {
        let mut c = base_command(perturb);
        c.arg("worker")
            .arg(prop)
            .arg("--seed")
            .arg(seed.to_string())
            .arg("--tier")
            .arg(tier.name())
            .arg("--from")
            .arg(from.to_string())
            .arg("--to")
            .arg(to.to_string())
            .arg("--hb")
            .arg(hb.to_string());
        if hashes {
            c.arg("--hashes");
        }
        if fixed_in_first && i == 0 {
            c.arg("--fixed");
        }
        let mut child = c.spawn().expect("spawn worker");
        let stdout = child.stdout.take().unwrap();
        let mut stderr = child.stderr.take().unwrap();
        let tx2 = tx.clone();
        std::thread::spawn(move || {
            let r = BufReader::with_capacity(1 << 16, stdout);
            for line in r.lines() {
                match line {
                    Ok(l) => {
                        if tx2.send(Msg::Line(i, l)).is_err() {
                            return;
                        }
                    }
                    Err(_) => break,
                }
            }
            let mut err = String::new();
            let _ = stderr.read_to_string(&mut err);
            let _ = tx2.send(Msg::Done(i, None, err));
        });
        slots.push(Slot {
            from: *from,
            to: *to,
            last_hb: *from,
            last_seen: Instant::now(),
            done: false,
            got_summary: false,
            child,
        });
    }
    drop(tx);
    let mut m = Merged::default();
    let mut remaining = slots.len();
    while remaining > 0 {
        match rx.recv_timeout(Duration::from_millis(500)) {
            Ok(Msg::Line(i, l)) => {
                slots[i].last_seen = Instant::now();
                let (tag, rest) = l.split_at(l.len().min(2));
                match tag {
                    "H " => {
                        if let Ok(x) = rest.trim().parse::<u64>() {
                            slots[i].last_hb = x;
                        }
                    }
                    "V " => match serde_json::from_str::<VRec>(rest) {
                        Ok(v) => {
                            if m.violations.len() < 2000 {
                                m.violations.push(v)
                            }
                        }
                        Err(e) => m.errors.push(format!("bad V line: {e}")),
                    },
                    "D " => {
                        for h in rest.split_whitespace() {
                            if let Ok(x) = u64::from_str_radix(h, 16) {
                                m.distinct.insert(x);
                            }
                        }
                    }
                    "P " => {
                        for h in rest.split_whitespace() {
                            if let Ok(x) = u64::from_str_radix(h, 16) {
                                m.shapes.insert(x);
                            }
                        }
                    }
                    "R " => {
                        let mut it = rest.split_whitespace();
                        if let (Some(a), Some(b)) = (it.next(), it.next()) {
                            if let (Ok(a), Ok(b)) = (a.parse::<u64>(), u64::from_str_radix(b, 16)) {
                                m.hashes.insert(a, b);
                            }
                        }
                    }
                    "S " => match serde_json::from_str::<Summary>(rest) {
                        Ok(s) => {
                            slots[i].got_summary = true;
                            m.sum.evaluations += s.evaluations;
                            m.sum.steps += s.steps;
                            m.sum.comparisons += s.comparisons;
                            for (k, v) in s.counters {
                                *m.sum.counters.entry(k).or_insert(0) += v;
                            }
                            for smp in s.samples {
                                if m.sum.samples.len() < 3 {
                                    m.sum.samples.push(smp);
                                }
                            }
                        }
                        Err(e) => m.errors.push(format!("bad S line: {e}")),
                    },
                    "E " => m.errors.push(rest.to_string()),
                    _ => m.errors.push(format!("unexpected worker output: {l}")),
                }
            }
            Ok(Msg::Done(i, _, err)) => {
                let st = slots[i].child.wait().ok();
                slots[i].done = true;
                remaining -= 1;
                let ok = st.map(|s| s.success()).unwrap_or(false);
                if !ok || !slots[i].got_summary {
                    let how = match st {
                        Some(s) => format!("worker ended abnormally: {s}; stderr: {}", tail(&err, 400)),
                        None => "worker status unknown".to_string(),
                    };
                    m.lost.push((slots[i].from, slots[i].to, slots[i].last_hb, how));
                }
            }
            Err(mpsc::RecvTimeoutError::Timeout) => {
                for s in slots.iter_mut() {
                    if !s.done && s.last_seen.elapsed() > hang_timeout {
                        let _ = s.child.kill();
                        s.last_seen = Instant::now();
                        m.lost.push((s.from, s.to, s.last_hb, "hang: no output within the watchdog window".into()));
                        // Done message follows when the pipe closes; mark so it is not double-counted.
                        s.got_summary = true;
                    }
                }
            }
            Err(mpsc::RecvTimeoutError::Disconnected) => break,
        }
    }
    m
}

fn tail(s: &str, n: usize) -> String {
    let s = s.trim();
    if s.len() <= n {
        s.to_string()
    } else {
        let mut start = s.len() - n;
        while !s.is_char_boundary(start) {
            start += 1;
        }
        s[start..].to_string()
    }
}

fn split_ranges(total: u64, workers: u64) -> Vec<(u64, u64)> {
    let workers = workers.max(1).min(total.max(1));
    let mut v = Vec::new();
    let per = total / workers;
    let extra = total % workers;
    let mut at = 0;
    for i in 0..workers {
        let n = per + if i < extra { 1 } else { 0 };
        v.push((at, at + n));
        at += n;
    }
    v
}

#[derive(Deserialize, Debug, Clone)]
pub struct KnownEntry {
    pub property: String,
    /// "open" (suppresses the matching violation, prints KNOWN-FINDING) or "fixed" (suppresses nothing)
    pub status: String,
    pub clause: String,
    pub site: String,
    pub what: String,
    #[serde(default)]
    pub commit: Option<String>,
    #[serde(default)]
    pub scenario: Value,
}

pub fn load_known(prop: &str) -> Result<Vec<KnownEntry>, String> {
    let p = verif_dir().join("known_findings.json");
    if !p.exists() {
        return Ok(vec![]);
    }
    let txt = std::fs::read_to_string(&p).map_err(|e| e.to_string())?;
    let v: Value = serde_json::from_str(&txt).map_err(|e| format!("known_findings.json: {e}"))?;
    let arr = v
        .get("findings")
        .and_then(|x| x.as_array())
        .cloned()
        .unwrap_or_default();
    let mut out = vec![];
    for a in arr {
        let k: KnownEntry = serde_json::from_value(a).map_err(|e| format!("known_findings.json entry: {e}"))?;
        if k.property == prop {
            out.push(k);
        }
    }
    Ok(out)
}

/// Execute one scenario in a fresh process. Returns (violations, log_hash, log text) or how the process was lost.
pub fn exec_in_child(prop: &str, scenario_json: &str, timeout: Duration) -> Result<(Vec<Violation>, u64, Vec<String>), String> {
    let mut c = base_command(0);
    c.arg("exec-stdin").arg(prop);
    c.stdin(Stdio::piped());
    let mut child = c.spawn().map_err(|e| e.to_string())?;
    {
        let mut si = child.stdin.take().unwrap();
        let _ = si.write_all(scenario_json.as_bytes());
    }
    let (tx, rx) = mpsc::channel();
    let mut so = child.stdout.take().unwrap();
    let mut se = child.stderr.take().unwrap();
    std::thread::spawn(move || {
        let mut s = String::new();
        let _ = so.read_to_string(&mut s);
        let mut e = String::new();
        let _ = se.read_to_string(&mut e);
        let _ = tx.send((s, e));
    });
    let (s, e) = match rx.recv_timeout(timeout) {
        Ok(x) => x,
        Err(_) => {
            let _ = child.kill();
            let _ = child.wait();
            return Err("hang: no result within the watchdog window".into());
        }
    };
    let st = child.wait().map_err(|e| e.to_string())?;
    if st.code() == Some(2) {
        return Err(format!("harness: scenario rejected: {}", tail(&e, 300)));
    }
    if !st.success() {
        return Err(format!("process ended abnormally: {st}; stderr: {}", tail(&e, 300)));
    }
    let v: Value = serde_json::from_str(s.trim()).map_err(|e| format!("bad exec output: {e}: {}", tail(&s, 200)))?;
    let viols: Vec<Violation> = serde_json::from_value(v["violations"].clone()).map_err(|e| e.to_string())?;
    let h = u64::from_str_radix(v["log_hash"].as_str().unwrap_or("0"), 16).unwrap_or(0);
    let log: Vec<String> = serde_json::from_value(v["log"].clone()).unwrap_or_default();
    Ok((viols, h, log))
}

pub fn exec_stdin(e: &dyn DynEngine) -> i32 {
    limit_resources();
    let mut s = String::new();
    if std::io::stdin().read_to_string(&mut s).is_err() {
        return 2;
    }
    // a replay may be a SEQUENCE of scenarios executed in this one process (a violation that needs state
    // left behind by earlier runs of the same worker): every scenario runs, the last one is reported
    if let Ok(Value::Object(o)) = serde_json::from_str::<Value>(&s) {
        if let Some(Value::Array(seq)) = o.get("sequence") {
            let Some((last, before)) = seq.split_last() else { return 2 };
            for sc in before {
                if let Err(err) = e.run_json(&sc.to_string(), false) {
                    eprintln!("{err}");
                    return 2;
                }
            }
            s = last.to_string();
        }
    }
    match e.run_json(&s, true) {
        Ok(rec) => {
            let out = json!({
                "violations": rec.outcome.violations,
                "log_hash": format!("{:016x}", rec.log_hash),
                "log": rec.log_text.unwrap_or_default(),
                "steps": rec.outcome.steps,
            });
            println!("{out}");
            0
        }
        Err(err) => {
            eprintln!("{err}");
            2
        }
    }
}

pub fn shrink_stdin(e: &dyn DynEngine, clause: &str, site: &str, budget: usize) -> i32 {
    limit_resources();
    let mut s = String::new();
    if std::io::stdin().read_to_string(&mut s).is_err() {
        return 2;
    }
    let (out, steps) = e.shrink_json(&s, &(clause.to_string(), site.to_string()), budget);
    println!("{}", json!({"scenario": serde_json::from_str::<Value>(&out).unwrap_or(Value::Null), "steps": steps}));
    0
}

fn shrink_in_child(prop: &str, scenario_json: &str, key: &(String, String), budget: usize, timeout: Duration) -> Option<(String, usize)> {
    let mut c = base_command(0);
    c.arg("shrink-stdin").arg(prop).arg(&key.0).arg(&key.1).arg(budget.to_string());
    c.stdin(Stdio::piped());
    let mut child = c.spawn().ok()?;
    {
        let mut si = child.stdin.take().unwrap();
        let _ = si.write_all(scenario_json.as_bytes());
    }
    let (tx, rx) = mpsc::channel();
    let mut so = child.stdout.take().unwrap();
    std::thread::spawn(move || {
        let mut s = String::new();
        let _ = so.read_to_string(&mut s);
        let _ = tx.send(s);
    });
    let s = match rx.recv_timeout(timeout) {
        Ok(s) => s,
        Err(_) => {
            let _ = child.kill();
            let _ = child.wait();
            return None;
        }
    };
    let st = child.wait().ok()?;
    if !st.success() {
        return None;
    }
    let v: Value = serde_json::from_str(s.trim()).ok()?;
    Some((serde_json::to_string(&v["scenario"]).ok()?, v["steps"].as_u64().unwrap_or(0) as usize))
}

pub struct RunOpts {
    /// prove determinism first (thorough tier): same runs in other processes / environments
    pub selftest_runs: u64,
    pub tier: Tier,
    pub seed: u64,
    pub workers: u64,
    pub runs_override: Option<u64>,
}

fn write_replay(prop: &str, name: &str, body: &Value) -> PathBuf {
    let dir = verif_dir().join("replays").join(prop);
    let _ = std::fs::create_dir_all(&dir);
    let p = dir.join(format!("{name}.json"));
    let _ = std::fs::write(&p, serde_json::to_string_pretty(body).unwrap());
    p
}

fn counters_by_prefix(c: &BTreeMap<String, u64>, prefix: &str) -> Value {
    let mut m = serde_json::Map::new();
    for (k, v) in c {
        if let Some(r) = k.strip_prefix(prefix) {
            m.insert(r.to_string(), json!(v));
        }
    }
    Value::Object(m)
}

/// The main entry: run one property's check. Returns the process exit code.
pub fn run_property(e: &dyn DynEngine, o: RunOpts) -> i32 {
    let t0 = Instant::now();
    let prop = e.prop();
    let meta = e.meta();
    println!("VERIF_SEED={} property={} tier={} engine={}", o.seed, prop, o.tier.name(), meta.engine);
    let known = match load_known(prop) {
        Ok(k) => k,
        Err(err) => {
            eprintln!("HARNESS-ERROR {err}");
            return 2;
        }
    };
    // replay files of earlier runs of this property would only confuse: start clean
    if let Ok(rd) = std::fs::read_dir(verif_dir().join("replays").join(prop)) {
        for f in rd.flatten() {
            let _ = std::fs::remove_file(f.path());
        }
    }
    if o.selftest_runs > 0 {
        let rc = selftest(e, o.seed, o.selftest_runs);
        if rc != 0 {
            return rc;
        }
    }
    let total = o.runs_override.unwrap_or_else(|| e.runs(o.tier));
    let hang = Duration::from_secs(if o.tier == Tier::Quick { 90 } else { 180 });
    let exec_timeout = Duration::from_secs(60);

    // Phase A: stored scenarios of known findings (open and fixed) are re-executed first.
    let mut known_reproduced: Vec<(KnownEntry, bool)> = Vec::new();
    let mut pending: Vec<(VRec, bool)> = Vec::new(); // (violation, lost-process kind)
    for k in &known {
        if k.scenario.is_null() {
            known_reproduced.push((k.clone(), false));
            continue;
        }
        let js = serde_json::to_string(&k.scenario).unwrap();
        match exec_in_child(prop, &js, exec_timeout) {
            Ok((viols, _, _)) => {
                let hit = viols.iter().any(|v| v.clause == k.clause && v.site == k.site);
                known_reproduced.push((k.clone(), hit));
                for v in viols {
                    pending.push((
                        VRec {
                            label: format!("known:{}", k.site),
                            violation: v,
                            scenario: k.scenario.clone(),
                        },
                        false,
                    ));
                }
            }
            Err(how) if how.starts_with("harness:") => {
                eprintln!("HARNESS-ERROR stored scenario of known finding {}/{}: {how}", k.clause, k.site);
                return 2;
            }
            Err(how) => {
                let v = Violation::new("process-lost", "stored-scenario", how);
                let hit = k.clause == v.clause;
                known_reproduced.push((k.clone(), hit));
                pending.push((
                    VRec {
                        label: format!("known:{}", k.site),
                        violation: v,
                        scenario: k.scenario.clone(),
                    },
                    true,
                ));
            }
        }
    }

    // Phase B: the seeded batch.
    let ranges = split_ranges(total, o.workers);
    let mut m = run_workers(prop, o.seed, o.tier, &ranges, false, e.heartbeat(), 0, true, hang);

    // Lost workers: pinpoint the run, one fresh process per run from the last heartbeat.
    let lost = std::mem::take(&mut m.lost);
    for (from, to, last_hb, how) in lost {
        let _ = from;
        let hi = (last_hb + e.heartbeat()).min(to);
        let mut found = false;
        for idx in last_hb..hi {
            let js = e.gen_json(o.seed, idx, o.tier);
            match exec_in_child(prop, &js, hang) {
                Ok(_) => continue,
                Err(h2) => {
                    found = true;
                    let sc: Value = serde_json::from_str(&js).unwrap_or(Value::Null);
                    let site = if h2.starts_with("hang") { "hang" } else { "abort" };
                    pending.push((
                        VRec {
                            label: format!("r{idx}"),
                            violation: Violation::new("process-lost", site, h2),
                            scenario: sc,
                        },
                        true,
                    ));
                    break;
                }
            }
        }
        if !found {
            m.errors.push(format!(
                "worker for runs {from}..{to} was lost ({how}) but no single run in {last_hb}..{hi} reproduces it"
            ));
        }
        // the rest of that worker's range was not explored; say so
        *m.sum.counters.entry("misc.runs_not_executed_after_lost_worker".into()).or_insert(0) += to.saturating_sub(last_hb);
    }

    for v in std::mem::take(&mut m.violations) {
        pending.push((v, false));
    }

    // Harness problems are exit 2, never a VIOLATION.
    let harness_viol: Vec<&(VRec, bool)> = pending.iter().filter(|(v, _)| v.violation.clause == "HARNESS-PANIC").collect();
    if !harness_viol.is_empty() || !m.errors.is_empty() {
        for (v, _) in harness_viol.iter().take(5) {
            eprintln!("HARNESS-ERROR {} {} {}", v.label, v.violation.site, v.violation.detail);
        }
        for er in m.errors.iter().take(10) {
            eprintln!("HARNESS-ERROR {er}");
        }
        return 2;
    }

    // Classify.
    let is_open_known = |v: &Violation| known.iter().any(|k| k.status == "open" && k.clause == v.clause && k.site == v.site);
    let mut known_hits: BTreeMap<(String, String), u64> = BTreeMap::new();
    let mut groups: BTreeMap<(String, String), Vec<(VRec, bool)>> = BTreeMap::new();
    for (v, lostp) in pending {
        if lostp && !meta.abort_is_violation {
            eprintln!("HARNESS-ERROR a process was lost ({}) on {}: {}", v.violation.site, v.label, v.violation.detail);
            return 2;
        }
        if is_open_known(&v.violation) {
            *known_hits.entry(v.violation.key()).or_insert(0) += 1;
        } else {
            groups.entry(v.violation.key()).or_default().push((v, lostp));
        }
    }

    let mut violation_lines: Vec<String> = Vec::new();
    let mut unreproduced: Vec<String> = Vec::new();
    let mut n_viol = 0u64;
    for (gi, (key, vs)) in groups.iter().enumerate() {
        n_viol += vs.len() as u64;
        // Candidates smallest first (by JSON length). A candidate must reproduce on its own in a fresh
        // process before it is minimised: a violation that needs state left behind by an earlier run of
        // the same worker (process-global state in the code under simulation) is not self-contained.
        let mut cands: Vec<&(VRec, bool)> = vs.iter().collect();
        cands.sort_by_key(|(v, _)| serde_json::to_string(&v.scenario).map(|s| s.len()).unwrap_or(usize::MAX));
        let mut chosen: Option<(&(VRec, bool), String, u64, Vec<String>, String)> = None;
        for cand in cands.iter().take(25) {
            let js = serde_json::to_string(&cand.0.scenario).unwrap();
            match exec_in_child(prop, &js, hang) {
                Ok((viols, h, log)) => {
                    if let Some(v) = viols.iter().find(|v| v.key() == *key) {
                        chosen = Some((cand, js, h, log, v.detail.clone()));
                        break;
                    }
                }
                Err(how) => {
                    if cand.1 {
                        chosen = Some((cand, js, 0, vec![], how));
                        break;
                    }
                }
            }
        }
        let Some((cand, orig, h0, log0, detail0)) = chosen else {
            // Not self-contained: the outcome depends on state that earlier runs of the same worker process
            // left behind (process-global state in the code under simulation). Replay the worker's runs up to
            // the failing one in a fresh process, with the shortest window of predecessors that still fails.
            match sequence_replay(e, prop, &o, &ranges, key, vs, hang) {
                Some((body, label)) => {
                    let name = format!("{}-{}-{}-sequence", o.seed, sanitize(&label), sanitize(&format!("{}-{}", key.0, key.1)));
                    let path = write_replay(prop, &name, &body);
                    violation_lines.push(format!("VIOLATION property={} replay={}", prop, path.display()));
                    println!("  clause={} site={} run={} occurrences={} detail={}", key.0, key.1, label, vs.len(), tail(body["detail"].as_str().unwrap_or(""), 600));
                    continue;
                }
                None => {
                    unreproduced.push(format!(
                        "violation {}/{} ({} occurrences, e.g. {}) did not reproduce in a fresh process, neither alone (first 25 candidates) nor as the sequence of its worker's preceding runs",
                        key.0, key.1, vs.len(), vs[0].0.label
                    ));
                    continue;
                }
            }
        };
        let first = &cand.0;
        let lostp = &cand.1;
        let mut scen = orig.clone();
        let mut shrink_steps = 0usize;
        let (mut log_hash, mut log, mut detail) = (h0, log0, detail0);
        if gi < 4 && !*lostp {
            if let Some((s2, st)) = shrink_in_child(prop, &orig, key, if o.tier == Tier::Quick { 1500 } else { 4000 }, Duration::from_secs(240)) {
                shrink_steps = st;
                // Re-execute the minimised scenario in a fresh process: must fail the same way.
                if let Ok((viols, h, l)) = exec_in_child(prop, &s2, hang) {
                    if let Some(v) = viols.iter().find(|v| v.key() == *key) {
                        scen = s2;
                        log_hash = h;
                        log = l;
                        detail = v.detail.clone();
                    }
                }
            }
        }
        let body = json!({
            "property": prop,
            "seed": o.seed,
            "run": first.label,
            "tier": o.tier.name(),
            "clause": key.0,
            "site": key.1,
            "detail": detail,
            "occurrences_in_batch": vs.len(),
            "shrink_steps": shrink_steps,
            "original_scenario_bytes": orig.len(),
            "minimised_scenario_bytes": scen.len(),
            "log_hash": format!("{log_hash:016x}"),
            "scenario": serde_json::from_str::<Value>(&scen).unwrap_or(Value::Null),
            "log": log,
        });
        let name = format!("{}-{}-{}", o.seed, sanitize(&first.label), sanitize(&format!("{}-{}", key.0, key.1)));
        let path = write_replay(prop, &name, &body);
        violation_lines.push(format!("VIOLATION property={} replay={}", prop, path.display()));
        println!("  clause={} site={} run={} occurrences={} detail={}", key.0, key.1, first.label, vs.len(), tail(&detail, 600));
    }

    // A class that could not be reproduced at all is a harness problem only if nothing else was reported.
    for u in &unreproduced {
        eprintln!("{} {u}", if violation_lines.is_empty() { "HARNESS-ERROR" } else { "NOTE" });
    }
    if violation_lines.is_empty() && !unreproduced.is_empty() {
        return 2;
    }

    // Known findings: print exactly when the listed behaviour is still there.
    let mut known_lines = Vec::new();
    for (k, hit) in &known_reproduced {
        let in_batch = known_hits.get(&(k.clause.clone(), k.site.clone())).copied().unwrap_or(0);
        if k.status == "open" && (*hit || in_batch > 0) {
            known_lines.push(format!("KNOWN-FINDING: property={} {} [clause={} site={} batch_hits={}]", prop, k.what, k.clause, k.site, in_batch));
        }
    }

    let wall = t0.elapsed().as_secs_f64();
    let c = &m.sum.counters;
    let zero_probes: Vec<String> = c.iter().filter(|(k, v)| k.starts_with("probe.") && **v == 0).map(|(k, _)| k.clone()).collect();
    let evidence = json!({
        "property_id": prop,
        "tier": o.tier.name(),
        "seed": o.seed,
        "level": meta.level,
        "wall_s": (wall * 100.0).round() / 100.0,
        "violations": n_viol,
        "assumptions": meta.assumptions,
        "coverage": {
            "evaluations": m.sum.evaluations,
            "distinct_nontrivial": m.distinct.len(),
            "rule": meta.rule,
            "samples": m.sum.samples,
            "exhaustive": false,
            "engine": meta.engine,
            "determinism_selftest": if o.selftest_runs > 0 { json!({"runs": o.selftest_runs, "process_layouts": 3, "ambient_environments": 3, "event_log_hash_mismatches": 0}) } else { json!("not part of the quick tier; see ./check selftest") },
            "runs": m.sum.evaluations,
            "runs_per_hour": if wall > 0.0 { (m.sum.evaluations as f64 / wall * 3600.0).round() } else { 0.0 },
            "workers": ranges.len(),
            "steps": m.sum.steps,
            "simulated_time_note": "clap has no clock; simulated time is reported as logical steps (operations executed against the real code)",
            "oracle_comparisons": m.sum.comparisons,
            "distinct_shapes": m.shapes.len(),
            "distinct_shapes_measure": "distinct hashes of <operation-kind sequence, fault-kind sequence, feature bitset> among non-trivial runs",
            "faults_fired": counters_by_prefix(c, "fault."),
            "ambient_events": counters_by_prefix(c, "ambient."),
            "operations": counters_by_prefix(c, "op."),
            "probes": counters_by_prefix(c, "probe."),
            "probes_at_zero": zero_probes,
            "unclaimed_observations": counters_by_prefix(c, "obs."),
            "misc": counters_by_prefix(c, "misc."),
            "real_components": meta.real_components,
            "stub_components": meta.stub_components,
            "workload_only_clauses": meta.workload_only_clauses,
            "known_findings_listed": known.iter().map(|k| json!({"status": k.status, "clause": k.clause, "site": k.site, "what": k.what})).collect::<Vec<_>>(),
            "known_findings_reproduced": known_lines.len(),
            "known_finding_hits_in_batch": known_hits.iter().map(|(k, v)| json!({"clause": k.0, "site": k.1, "hits": v})).collect::<Vec<_>>(),
        }
    });
    let evdir = verif_dir().join("evidence");
    let _ = std::fs::create_dir_all(&evdir);
    if let Err(err) = std::fs::write(evdir.join(format!("{prop}.json")), serde_json::to_string_pretty(&evidence).unwrap()) {
        eprintln!("HARNESS-ERROR cannot write evidence: {err}");
        return 2;
    }
    for l in &known_lines {
        println!("{l}");
    }
    println!(
        "runs={} steps={} comparisons={} distinct_nontrivial={} shapes={} wall_s={:.1}",
        m.sum.evaluations,
        m.sum.steps,
        m.sum.comparisons,
        m.distinct.len(),
        m.shapes.len(),
        wall
    );
    if m.sum.evaluations == 0 || m.distinct.len() < 2 {
        eprintln!("HARNESS-ERROR nothing explored");
        return 2;
    }
    // the workload is valid by construction; if clap's own validity gate (build() under debug assertions)
    // rejects a large share of it, the check cannot decide anything and says so instead of passing
    let rejected = m.sum.counters.get("misc.specs_rejected_by_gate").copied().unwrap_or(0);
    if violation_lines.is_empty() && rejected * 10 > m.sum.evaluations * 3 {
        eprintln!("HARNESS-ERROR clap's validity gate rejected {rejected} of {} generated command definitions: cannot decide", m.sum.evaluations);
        return 2;
    }
    if !violation_lines.is_empty() {
        for l in &violation_lines {
            println!("{l}");
        }
        return 1;
    }
    println!("OK property={prop}");
    0
}

fn sanitize(s: &str) -> String {
    s.chars().map(|c| if c.is_ascii_alphanumeric() || c == '-' || c == '_' || c == '.' { c } else { '_' }).take(80).collect()
}

/// Replay a replay file in a fresh process; exit 1 (with the VIOLATION line) when it reproduces.
/// Reproduce a violation that is not self-contained by replaying, in one fresh process, the runs that
/// the same worker executed before it. Returns the replay body and the run label.
fn sequence_replay(e: &dyn DynEngine, prop: &str, o: &RunOpts, ranges: &[(u64, u64)], key: &(String, String), vs: &[(VRec, bool)], hang: Duration) -> Option<(Value, String)> {
    for (v, _) in vs.iter().take(6) {
        let Some(idx) = v.label.strip_prefix('r').and_then(|x| x.parse::<u64>().ok()) else { continue };
        let Some((from, _)) = ranges.iter().find(|(a, b)| *a <= idx && idx < *b) else { continue };
        let run = |idxs: &[u64]| -> Option<(u64, Vec<String>, String)> {
            let seq: Vec<Value> = idxs.iter().map(|i| serde_json::from_str::<Value>(&e.gen_json(o.seed, *i, o.tier)).unwrap_or(Value::Null)).collect();
            let js = json!({ "sequence": seq }).to_string();
            match exec_in_child(prop, &js, hang) {
                Ok((viols, h, log)) => viols.iter().find(|x| x.key() == *key).map(|x| (h, log, x.detail.clone())),
                Err(_) => None,
            }
        };
        // shortest window of predecessors (doubling), then drop predecessors one at a time
        let avail = idx - from;
        let mut k = 1u64;
        let mut found: Option<Vec<u64>> = None;
        loop {
            let k2 = k.min(avail);
            let idxs: Vec<u64> = (idx - k2..=idx).collect();
            if run(&idxs).is_some() {
                found = Some(idxs);
                break;
            }
            if k2 == avail || k > 4096 {
                break;
            }
            k *= 2;
        }
        let Some(mut idxs) = found else { continue };
        if idxs.len() <= 65 {
            let mut i = 0;
            while i + 1 < idxs.len() {
                let mut t = idxs.clone();
                t.remove(i);
                if run(&t).is_some() {
                    idxs = t;
                } else {
                    i += 1;
                }
            }
        }
        let (h, log, detail) = run(&idxs)?;
        let seq: Vec<Value> = idxs.iter().map(|i| serde_json::from_str::<Value>(&e.gen_json(o.seed, *i, o.tier)).unwrap_or(Value::Null)).collect();
        let body = json!({
            "property": prop,
            "seed": o.seed,
            "run": v.label,
            "tier": o.tier.name(),
            "clause": key.0,
            "site": key.1,
            "detail": detail,
            "occurrences_in_batch": vs.len(),
            "not_self_contained": "the violation needs state left behind in the process by the earlier scenarios of `sequence` (run indices listed in `sequence_runs`); the replay executes all of them in order in one fresh process",
            "sequence_runs": idxs,
            "log_hash": format!("{h:016x}"),
            "sequence": seq,
            "log": log,
        });
        return Some((body, v.label.clone()));
    }
    None
}

pub fn replay(e: &dyn DynEngine, path: &str) -> i32 {
    let prop = e.prop();
    let txt = match std::fs::read_to_string(path) {
        Ok(t) => t,
        Err(err) => {
            eprintln!("HARNESS-ERROR cannot read {path}: {err}");
            return 2;
        }
    };
    let v: Value = match serde_json::from_str(&txt) {
        Ok(v) => v,
        Err(err) => {
            eprintln!("HARNESS-ERROR bad replay file: {err}");
            return 2;
        }
    };
    let scen = if v.get("sequence").is_some() { json!({ "sequence": v["sequence"] }).to_string() } else { serde_json::to_string(&v["scenario"]).unwrap() };
    let clause = v["clause"].as_str().unwrap_or("").to_string();
    let site = v["site"].as_str().unwrap_or("").to_string();
    match exec_in_child(prop, &scen, Duration::from_secs(180)) {
        Ok((viols, h, log)) => {
            for l in &log {
                println!("  | {l}");
            }
            let same_hash = format!("{h:016x}") == v["log_hash"].as_str().unwrap_or("");
            if let Some(x) = viols.iter().find(|x| x.clause == clause && x.site == site) {
                println!("reproduced: clause={} site={} detail={}", x.clause, x.site, x.detail);
                println!("event-log hash {} recorded hash", if same_hash { "equals" } else { "DIFFERS from" });
                println!("VIOLATION property={prop} replay={path}");
                1
            } else if !viols.is_empty() {
                println!("a different violation occurred: {:?}", viols);
                println!("VIOLATION property={prop} replay={path}");
                1
            } else {
                println!("not reproduced on the current tree (no violation)");
                0
            }
        }
        Err(how) => {
            if clause == "process-lost" {
                println!("reproduced: {how}");
                println!("VIOLATION property={prop} replay={path}");
                1
            } else {
                eprintln!("HARNESS-ERROR replay process lost: {how}");
                2
            }
        }
    }
}

/// Determinism self-test: the same runs in different processes, worker counts and ambient
/// environments must produce identical event-log hashes. Exit 2 on any difference.
pub fn selftest(e: &dyn DynEngine, seed: u64, n: u64) -> i32 {
    let prop = e.prop();
    let hang = Duration::from_secs(180);
    let a = run_workers(prop, seed, Tier::Quick, &split_ranges(n, 5), true, e.heartbeat(), 0, false, hang);
    let b = run_workers(prop, seed, Tier::Quick, &split_ranges(n, 16), true, e.heartbeat(), 1, false, hang);
    let c = run_workers(prop, seed, Tier::Quick, &split_ranges(n, 3), true, e.heartbeat(), 2, false, hang);
    if !a.errors.is_empty() || !b.errors.is_empty() || !c.errors.is_empty() || !a.lost.is_empty() || !b.lost.is_empty() || !c.lost.is_empty() {
        eprintln!("HARNESS-ERROR selftest {prop}: worker errors {:?} {:?} {:?} lost {:?}", a.errors, b.errors, c.errors, a.lost);
        return 2;
    }
    let mut diffs = 0;
    for (k, v) in &a.hashes {
        if b.hashes.get(k) != Some(v) || c.hashes.get(k) != Some(v) {
            if diffs < 10 {
                eprintln!("selftest {prop}: run {k} differs: {:016x} vs {:?} vs {:?}", v, b.hashes.get(k), c.hashes.get(k));
            }
            diffs += 1;
        }
    }
    let va: BTreeSet<String> = a.violations.iter().map(|v| format!("{}|{}|{}", v.label, v.violation.clause, v.violation.site)).collect();
    let vb: BTreeSet<String> = b.violations.iter().map(|v| format!("{}|{}|{}", v.label, v.violation.clause, v.violation.site)).collect();
    // the per-batch violation list is capped; a comparison is only meaningful below the cap
    if va != vb && a.violations.len() < 2000 && b.violations.len() < 2000 {
        eprintln!("selftest {prop}: violation sets differ between processes");
        diffs += 1;
    }
    println!("selftest property={prop} seed={seed} runs={} x3 (5/16/3 workers, perturbed environments) hash_mismatches={diffs}", a.hashes.len());
    if diffs > 0 || a.hashes.len() as u64 != n {
        eprintln!("HARNESS-ERROR determinism self-test failed for {prop}");
        return 2;
    }
    0
}
