//! Shared machinery: event log, outcomes, the engine trait, panic capture, scenario hashing.

use crate::rng::Rng;
use serde::de::DeserializeOwned;
use serde::Serialize;
use std::borrow::Cow;
use std::cell::RefCell;
use std::collections::BTreeMap;
use std::fmt::Write as _;
use std::hash::{Hash, Hasher};

#[derive(Clone, Copy, Debug, PartialEq, Eq)]
pub enum Tier {
    Quick,
    Thorough,
}

impl Tier {
    pub fn name(self) -> &'static str {
        match self {
            Tier::Quick => "quick",
            Tier::Thorough => "thorough",
        }
    }
    pub fn parse(s: &str) -> Option<Tier> {
        match s {
            "quick" => Some(Tier::Quick),
            "thorough" => Some(Tier::Thorough),
            _ => None,
        }
    }
}

/// Event log of one run. Only its hash is kept unless text retention is requested (replay).
/// Logging never draws from the PRNG and never reads a clock.
pub struct Log {
    h: u64,
    n: u64,
    text: Option<Vec<String>>,
    buf: String,
}

impl Log {
    pub fn new(keep_text: bool) -> Log {
        Log {
            h: 0xcbf2_9ce4_8422_2325,
            n: 0,
            text: if keep_text { Some(Vec::new()) } else { None },
            buf: String::new(),
        }
    }
    pub fn ev(&mut self, args: std::fmt::Arguments<'_>) {
        self.buf.clear();
        let _ = self.buf.write_fmt(args);
        for b in self.buf.as_bytes() {
            self.h ^= *b as u64;
            self.h = self.h.wrapping_mul(0x0000_0100_0000_01B3);
        }
        self.h ^= 0xff;
        self.h = self.h.wrapping_mul(0x0000_0100_0000_01B3);
        self.n += 1;
        if let Some(t) = &mut self.text {
            if t.len() < 20_000 {
                t.push(self.buf.clone());
            }
        }
    }
    pub fn hash(&self) -> u64 {
        self.h ^ self.n.rotate_left(32)
    }
    pub fn events(&self) -> u64 {
        self.n
    }
    pub fn text(&self) -> Option<&[String]> {
        self.text.as_deref()
    }
}

#[macro_export]
macro_rules! ev {
    ($log:expr, $($arg:tt)*) => {
        $log.ev(format_args!($($arg)*))
    };
}

#[derive(Clone, Debug, Serialize, serde::Deserialize, PartialEq, Eq)]
pub struct Violation {
    /// Which oracle clause failed (stable identifier).
    pub clause: String,
    /// Structural class of the failing scenario (used to match known findings): never a line number.
    pub site: String,
    /// Human-readable description of what differed.
    pub detail: String,
}

impl Violation {
    pub fn new(clause: &str, site: impl Into<String>, detail: impl Into<String>) -> Violation {
        Violation {
            clause: clause.to_string(),
            site: site.into(),
            detail: detail.into(),
        }
    }
    pub fn key(&self) -> (String, String) {
        (self.clause.clone(), self.site.clone())
    }
}

pub type Counters = BTreeMap<Cow<'static, str>, u64>;

#[derive(Default, Debug)]
pub struct Outcome {
    pub violations: Vec<Violation>,
    /// Operations executed against the real code (logical time; clap has no clock).
    pub steps: u64,
    /// Oracle comparisons actually reached.
    pub comparisons: u64,
    /// A history of >= 2 operations, or >= 1 fault/ambient event that fired.
    pub nontrivial: bool,
    /// Hash of <op-kind sequence, fault-kind sequence, feature bitset>.
    pub shape: u64,
    pub counters: Counters,
}

impl Outcome {
    pub fn count(&mut self, k: &'static str) {
        *self.counters.entry(Cow::Borrowed(k)).or_insert(0) += 1;
    }
    pub fn count_n(&mut self, k: &'static str, n: u64) {
        *self.counters.entry(Cow::Borrowed(k)).or_insert(0) += n;
    }
    pub fn count_dyn(&mut self, k: String) {
        *self.counters.entry(Cow::Owned(k)).or_insert(0) += 1;
    }
    pub fn violate(&mut self, clause: &str, site: impl Into<String>, detail: impl Into<String>) {
        if self.violations.len() < 16 {
            self.violations.push(Violation::new(clause, site, detail));
        }
    }
}

pub struct Meta {
    pub engine: &'static str,
    /// "exploration" | "fault_enumeration"
    pub level: &'static str,
    pub rule: &'static str,
    pub real_components: &'static [&'static str],
    pub stub_components: &'static [&'static str],
    pub workload_only_clauses: &'static [&'static str],
    pub assumptions: &'static [&'static str],
    /// Clauses for which a lost worker (abort, stack overflow, hang) is a property violation.
    pub abort_is_violation: bool,
}

pub trait Engine {
    type Sc: Serialize + DeserializeOwned + Clone + Hash + std::fmt::Debug;
    fn prop(&self) -> &'static str;
    fn meta(&self) -> Meta;
    fn runs(&self, tier: Tier) -> u64;
    fn heartbeat(&self) -> u64 {
        64
    }
    fn gen(&self, rng: &mut Rng, tier: Tier) -> Self::Sc;
    fn exec(&self, sc: &Self::Sc, log: &mut Log) -> Outcome;
    /// Candidate simplifications, most aggressive first.
    fn shrink(&self, sc: &Self::Sc) -> Vec<Self::Sc>;
    /// Hand-written scenarios run before the generated ones (regression seeds).
    fn fixed(&self) -> Vec<(String, Self::Sc)> {
        Vec::new()
    }
}

pub fn stable_hash<T: Hash>(t: &T) -> u64 {
    // DefaultHasher::new() uses fixed keys: stable across processes.
    #[allow(deprecated)]
    let mut h = std::collections::hash_map::DefaultHasher::new();
    t.hash(&mut h);
    h.finish()
}

pub struct ShapeHasher(u64);
impl ShapeHasher {
    pub fn new() -> Self {
        ShapeHasher(0x1234_5678_9abc_def1)
    }
    pub fn add(&mut self, x: u64) {
        self.0 = (self.0 ^ x).wrapping_mul(0x0000_0100_0000_01B3).rotate_left(13);
    }
    pub fn add_str(&mut self, s: &str) {
        self.add(crate::rng::fnv1a(s.as_bytes()));
    }
    pub fn get(&self) -> u64 {
        self.0
    }
}

// ---------------------------------------------------------------------------------------------
// Panic capture: panics of the code under simulation are outcomes, not crashes of the simulator.

#[derive(Clone, Debug, PartialEq, Eq)]
pub struct PanicInfo {
    pub msg: String,
    /// file:line:col as reported by the panic
    pub loc: String,
    /// file only (stable across unrelated edits)
    pub file: String,
}

thread_local! {
    static LAST_PANIC: RefCell<Option<PanicInfo>> = const { RefCell::new(None) };
}

pub fn install_panic_hook() {
    let verbose = std::env::var_os("VERIF_DEBUG_PANICS").is_some();
    std::panic::set_hook(Box::new(move |info| {
        let msg = if let Some(s) = info.payload().downcast_ref::<&str>() {
            s.to_string()
        } else if let Some(s) = info.payload().downcast_ref::<String>() {
            s.clone()
        } else {
            "<non-string panic>".to_string()
        };
        let (loc, file) = match info.location() {
            Some(l) => (
                format!("{}:{}:{}", l.file(), l.line(), l.column()),
                l.file().to_string(),
            ),
            None => ("<unknown>".into(), "<unknown>".into()),
        };
        if verbose {
            eprintln!("[panic] {msg} at {loc}");
        }
        LAST_PANIC.with(|p| *p.borrow_mut() = Some(PanicInfo { msg, loc, file }));
    }));
}

/// Run `f`, turning a panic into a value.
pub fn catch<T>(f: impl FnOnce() -> T) -> Result<T, PanicInfo> {
    LAST_PANIC.with(|p| *p.borrow_mut() = None);
    match std::panic::catch_unwind(std::panic::AssertUnwindSafe(f)) {
        Ok(v) => Ok(v),
        Err(_) => Err(LAST_PANIC.with(|p| p.borrow_mut().take()).unwrap_or(PanicInfo {
            msg: "<panic without hook info>".into(),
            loc: "<unknown>".into(),
            file: "<unknown>".into(),
        })),
    }
}

/// A panic is attributed to the code under simulation when it is raised from a file under
/// /repo (or a dependency of it), and to the harness when raised from /verif/sim/src.
pub fn panic_in_harness(p: &PanicInfo) -> bool {
    p.file.starts_with("src/") || p.file.contains("/verif/sim/")
}

pub fn short_file(p: &PanicInfo) -> String {
    let f = p.file.as_str();
    let f = f.strip_prefix("/repo/").unwrap_or(f);
    f.to_string()
}
