//! C04 (narrow) — histories of fallible typed get/remove calls on one `ArgMatches` and a clone
//! of it (the two share every stored value through `Arc`): a failing access must not disturb
//! anything, a successful remove on one copy must leave the other intact, and every typed value
//! must be what an independent reading of the reported raw string gives.

use crate::bytes::{esc, B};
use crate::c06::dec_in_range;
use crate::cmdsim::full_argv;
use crate::core::*;
use crate::ev;
use crate::gen::{gen_argv, gen_tree, GenCfg};
use crate::rng::Rng;
use crate::spec::*;
use clap::parser::MatchesError;
use clap::ArgMatches;
use serde::{Deserialize, Serialize};
use std::collections::BTreeMap;
use std::ffi::OsString;
use std::os::unix::ffi::OsStrExt;
use std::path::PathBuf;

#[derive(Clone, Copy, Debug, Hash, Serialize, Deserialize, PartialEq, Eq)]
pub enum Acc {
    GetOne,
    GetMany,
    GetOccurrences,
    RemoveOne,
    RemoveMany,
    RemoveOccurrences,
    GetRaw,
    Contains,
    Clear,
    /// workload-only clause: parse one candidate string with this argument's value parser in isolation
    Lang,
}

#[derive(Clone, Copy, Debug, Hash, Serialize, Deserialize, PartialEq, Eq)]
pub enum IdSel {
    /// index into the level's arguments (modulo)
    Arg(u8),
    Unknown,
    Group,
    External,
}

#[derive(Clone, Copy, Debug, Hash, Serialize, Deserialize, PartialEq, Eq, PartialOrd, Ord)]
pub enum Ty {
    Str,
    Os,
    Path,
    I64,
    U16,
    U8,
    Bool,
    I8,
    I16,
    I32,
    U32,
    U64,
}

#[derive(Clone, Debug, Hash, Serialize, Deserialize, PartialEq)]
pub struct AOp {
    /// false = the original matches, true = its clone
    pub on_clone: bool,
    pub acc: Acc,
    pub id: IdSel,
    /// None = the argument's own type; Some(t) = ask for type t (may be wrong)
    pub ask: Option<Ty>,
    /// candidate raw value for `Acc::Lang`
    #[serde(default)]
    pub cand: Option<B>,
    /// delivery channel of the candidate for `Acc::Lang`: 0 `--probe=cand`, 1 `--probe cand`,
    /// 2 an environment variable set when the argument is defined, 3 `--probe=cand` on a clone of the command
    #[serde(default)]
    pub via: u8,
    /// use the panicking convenience API (`get_one`, `remove_one`, ...) and catch the panic
    #[serde(default)]
    pub panicking: bool,
}

#[derive(Clone, Debug, Hash, Serialize, Deserialize, PartialEq)]
pub struct C04Sc {
    pub spec: CmdSpec,
    pub argv: Vec<B>,
    /// descend this many subcommand levels (as far as the matches go)
    pub depth: u8,
    pub ops: Vec<AOp>,
}

pub struct AccessSim;

fn ty_of(a: &ArgSpec) -> Option<Ty> {
    match a.action {
        Action::SetTrue | Action::SetFalse => Some(Ty::Bool),
        Action::Count => Some(Ty::U8),
        Action::Help | Action::HelpShort | Action::HelpLong | Action::Version => None,
        Action::Set | Action::Append => Some(match &a.parser {
            ValParser::Str | ValParser::Possible(_) | ValParser::Reject(_) => Ty::Str,
            ValParser::Os => Ty::Os,
            ValParser::Path => Ty::Path,
            ValParser::I64 { .. } => Ty::I64,
            ValParser::U16 => Ty::U16,
            ValParser::Int { w, .. } => match w {
                IntW::I8 => Ty::I8,
                IntW::I16 => Ty::I16,
                IntW::I32 => Ty::I32,
                IntW::U8 => Ty::U8,
                IntW::U32 => Ty::U32,
                IntW::U64 => Ty::U64,
            },
            // the enum type is only read by the language probe
            ValParser::EnumVp => return None,
            ValParser::Bool | ValParser::Boolish => Ty::Bool,
            ValParser::Edge(k) => match k % 15 {
                12 => Ty::U16,
                13 => Ty::I8,
                14 => Ty::U8,
                _ if edge_language(*k).0 => Ty::U64,
                _ => Ty::I64,
            },
        }),
    }
}

/// Independent reading of a raw string as the type's canonical Debug text.
fn canonical(a: &ArgSpec, ty: Ty, raw: &[u8]) -> Option<String> {
    let s = std::str::from_utf8(raw).ok();
    match ty {
        Ty::Str => s.map(|x| format!("{x:?}")),
        Ty::Os => Some(format!("{:?}", OsString::from(std::ffi::OsStr::from_bytes(raw)))),
        Ty::Path => Some(format!("{:?}", PathBuf::from(std::ffi::OsStr::from_bytes(raw)))),
        Ty::I64 => {
            let (lo, hi) = match &a.parser {
                ValParser::I64 { lo, hi } => (*lo as i128, *hi as i128),
                ValParser::Edge(k) => (edge_language(*k).1, edge_language(*k).2),
                _ => (i64::MIN as i128, i64::MAX as i128),
            };
            s.filter(|t| dec_in_range(t, lo, hi)).map(own_decimal)
        }
        Ty::U16 => {
            let (lo, hi) = match &a.parser {
                ValParser::Edge(k) => (edge_language(*k).1, edge_language(*k).2),
                _ => (0, 65535),
            };
            s.filter(|t| dec_in_range(t, lo, hi)).map(own_decimal)
        }
        Ty::I8 | Ty::I16 | Ty::I32 | Ty::U32 | Ty::U64 => {
            let (lo, hi) = match &a.parser {
                ValParser::Int { w, range } => w.language(*range),
                ValParser::Edge(k) => (edge_language(*k).1, edge_language(*k).2),
                _ => (i128::MIN, i128::MAX),
            };
            s.filter(|t| dec_in_range(t, lo, hi)).map(own_decimal)
        }
        Ty::U8 => {
            let (lo, hi) = match &a.parser {
                ValParser::Int { w, range } if a.action.takes_values() || a.action == Action::Count => w.language(*range),
                ValParser::Edge(k) => (edge_language(*k).1, edge_language(*k).2),
                _ => (0, 255),
            };
            s.filter(|t| dec_in_range(t, lo, hi)).map(own_decimal)
        }
        Ty::Bool => match (&a.parser, a.action) {
            (ValParser::Boolish, Action::Set | Action::Append) => s.and_then(|t| {
                let l = t.to_lowercase();
                if ["y", "yes", "t", "true", "on", "1"].contains(&l.as_str()) {
                    Some("true".to_string())
                } else if ["n", "no", "f", "false", "off", "0"].contains(&l.as_str()) {
                    Some("false".to_string())
                } else {
                    None
                }
            }),
            _ => match s {
                Some("true") => Some("true".into()),
                Some("false") => Some("false".into()),
                _ => None,
            },
        },
    }
}

fn own_decimal(t: &str) -> String {
    let neg = t.starts_with('-');
    let digits = t.trim_start_matches(['+', '-']).trim_start_matches('0');
    if digits.is_empty() {
        "0".to_string()
    } else if neg {
        format!("-{digits}")
    } else {
        digits.to_string()
    }
}

#[derive(Clone, Debug)]
struct Entry {
    /// canonical typed values per occurrence (None = the model cannot read it: ignored)
    typed: Vec<Vec<String>>,
    raw: Vec<Vec<Vec<u8>>>,
}

enum Got {
    Err(&'static str),
    NoneV,
    One(String),
    Many(Vec<String>),
    Occ(Vec<Vec<String>>),
    Bool(bool),
}

fn err_kind(e: &MatchesError) -> &'static str {
    match e {
        MatchesError::Downcast { .. } => "Downcast",
        MatchesError::UnknownArgument { .. } => "UnknownArgument",
        _ => "Other",
    }
}

macro_rules! typed_access {
    ($m:expr, $acc:expr, $id:expr, $t:ty) => {
        match $acc {
            Acc::GetOne => match $m.try_get_one::<$t>($id) {
                Ok(Some(v)) => Got::One(format!("{:?}", v)),
                Ok(None) => Got::NoneV,
                Err(e) => Got::Err(err_kind(&e)),
            },
            Acc::GetMany => match $m.try_get_many::<$t>($id) {
                Ok(Some(v)) => Got::Many(v.map(|x| format!("{:?}", x)).collect()),
                Ok(None) => Got::NoneV,
                Err(e) => Got::Err(err_kind(&e)),
            },
            Acc::GetOccurrences => match $m.try_get_occurrences::<$t>($id) {
                Ok(Some(v)) => Got::Occ(v.map(|g| g.map(|x| format!("{:?}", x)).collect()).collect()),
                Ok(None) => Got::NoneV,
                Err(e) => Got::Err(err_kind(&e)),
            },
            Acc::RemoveOne => match $m.try_remove_one::<$t>($id) {
                Ok(Some(v)) => Got::One(format!("{:?}", v)),
                Ok(None) => Got::NoneV,
                Err(e) => Got::Err(err_kind(&e)),
            },
            Acc::RemoveMany => match $m.try_remove_many::<$t>($id) {
                Ok(Some(v)) => Got::Many(v.map(|x| format!("{:?}", x)).collect()),
                Ok(None) => Got::NoneV,
                Err(e) => Got::Err(err_kind(&e)),
            },
            Acc::RemoveOccurrences => match $m.try_remove_occurrences::<$t>($id) {
                Ok(Some(v)) => Got::Occ(v.map(|g| g.map(|x| format!("{:?}", x)).collect()).collect()),
                Ok(None) => Got::NoneV,
                Err(e) => Got::Err(err_kind(&e)),
            },
            _ => Got::NoneV,
        }
    };
}

/// The same accesses through the panicking convenience API (`get_one`, `remove_many`, ...): a wrong type or
/// an unknown id panics by documented design; the panic is caught by the caller (the simulated application)
/// and the stored values must be as undisturbed as after a failing `try_` call.
macro_rules! typed_access_panicking {
    ($m:expr, $acc:expr, $id:expr, $t:ty) => {
        match $acc {
            Acc::GetOne => match $m.get_one::<$t>($id) {
                Some(v) => Got::One(format!("{:?}", v)),
                None => Got::NoneV,
            },
            Acc::GetMany => match $m.get_many::<$t>($id) {
                Some(v) => Got::Many(v.map(|x| format!("{:?}", x)).collect()),
                None => Got::NoneV,
            },
            Acc::GetOccurrences => match $m.get_occurrences::<$t>($id) {
                Some(v) => Got::Occ(v.map(|g| g.map(|x| format!("{:?}", x)).collect()).collect()),
                None => Got::NoneV,
            },
            Acc::RemoveOne => match $m.remove_one::<$t>($id) {
                Some(v) => Got::One(format!("{:?}", v)),
                None => Got::NoneV,
            },
            Acc::RemoveMany => match $m.remove_many::<$t>($id) {
                Some(v) => Got::Many(v.map(|x| format!("{:?}", x)).collect()),
                None => Got::NoneV,
            },
            Acc::RemoveOccurrences => match $m.remove_occurrences::<$t>($id) {
                Some(v) => Got::Occ(v.map(|g| g.map(|x| format!("{:?}", x)).collect()).collect()),
                None => Got::NoneV,
            },
            _ => Got::NoneV,
        }
    };
}

fn access_panicking(m: &mut ArgMatches, acc: Acc, id: &str, ty: Ty) -> Result<Got, PanicInfo> {
    if acc == Acc::Clear {
        // there is no panicking variant of try_clear_id
        return Ok(access(m, acc, id, ty));
    }
    let r = catch(|| match acc {
        Acc::GetRaw => match m.get_raw(id) {
            Some(v) => Got::Many(v.map(|x| esc(x.as_bytes())).collect()),
            None => Got::NoneV,
        },
        Acc::Contains => Got::Bool(m.contains_id(id)),
        _ => match ty {
            Ty::Str => typed_access_panicking!(m, acc, id, String),
            Ty::Os => typed_access_panicking!(m, acc, id, OsString),
            Ty::Path => typed_access_panicking!(m, acc, id, PathBuf),
            Ty::I64 => typed_access_panicking!(m, acc, id, i64),
            Ty::U16 => typed_access_panicking!(m, acc, id, u16),
            Ty::U8 => typed_access_panicking!(m, acc, id, u8),
            Ty::Bool => typed_access_panicking!(m, acc, id, bool),
            Ty::I8 => typed_access_panicking!(m, acc, id, i8),
            Ty::I16 => typed_access_panicking!(m, acc, id, i16),
            Ty::I32 => typed_access_panicking!(m, acc, id, i32),
            Ty::U32 => typed_access_panicking!(m, acc, id, u32),
            Ty::U64 => typed_access_panicking!(m, acc, id, u64),
        },
    });
    match r {
        Ok(g) => Ok(g),
        Err(p) => {
            if p.msg.contains("Could not downcast") {
                Ok(Got::Err("Downcast"))
            } else if p.msg.contains("Unknown argument or group id") || p.msg.contains("is not a valid argument or group ID") {
                Ok(Got::Err("UnknownArgument"))
            } else {
                // any other panic belongs to the code under simulation
                Err(p)
            }
        }
    }
}

fn group_ids(m: &ArgMatches, id: &str) -> Option<Vec<String>> {
    m.try_get_many::<clap::Id>(id).ok().flatten().map(|v| v.map(|x| x.as_str().to_string()).collect())
}

fn access(m: &mut ArgMatches, acc: Acc, id: &str, ty: Ty) -> Got {
    match acc {
        Acc::GetRaw => match m.try_get_raw(id) {
            Ok(Some(v)) => Got::Many(v.map(|x| esc(x.as_bytes())).collect()),
            Ok(None) => Got::NoneV,
            Err(e) => Got::Err(err_kind(&e)),
        },
        Acc::Contains => match m.try_contains_id(id) {
            Ok(b) => Got::Bool(b),
            Err(e) => Got::Err(err_kind(&e)),
        },
        Acc::Clear => match m.try_clear_id(id) {
            Ok(b) => Got::Bool(b),
            Err(e) => Got::Err(err_kind(&e)),
        },
        _ => match ty {
            Ty::Str => typed_access!(m, acc, id, String),
            Ty::Os => typed_access!(m, acc, id, OsString),
            Ty::Path => typed_access!(m, acc, id, PathBuf),
            Ty::I64 => typed_access!(m, acc, id, i64),
            Ty::U16 => typed_access!(m, acc, id, u16),
            Ty::U8 => typed_access!(m, acc, id, u8),
            Ty::Bool => typed_access!(m, acc, id, bool),
            Ty::I8 => typed_access!(m, acc, id, i8),
            Ty::I16 => typed_access!(m, acc, id, i16),
            Ty::I32 => typed_access!(m, acc, id, i32),
            Ty::U32 => typed_access!(m, acc, id, u32),
            Ty::U64 => typed_access!(m, acc, id, u64),
        },
    }
}

impl Engine for AccessSim {
    type Sc = C04Sc;
    fn prop(&self) -> &'static str {
        "C04"
    }
    fn meta(&self) -> Meta {
        Meta {
            engine: "cmdsim/accesssim",
            level: "exploration",
            rule: "a scenario is a command tree with typed value parsers (ranged i64, u16, bool, boolish, possible values, OsString, PathBuf, String, counters, flags), an argv that parses successfully, and a history of 2-16 fallible typed accesses applied alternately to the resulting ArgMatches and to a clone of it (which shares every stored value through Arc): try_get_one/many/occurrences, try_remove_one/many/occurrences, try_get_raw, try_contains_id, try_clear_id, each with the right type, a wrong type, an unknown id, a group id or the external-subcommand id. Faults are the failing calls themselves (a wrong-type remove takes the entry out and must put it back). Non-trivial = >= 2 accesses with >= 1 failing access or removal; distinct = distinct scenario hash. Added during the build phase: all integer widths, edge / chained / directly constructed ranged parsers, EnumValueParser, counters with a range; a quarter of the accesses go through the panicking API (panic caught); language probes (one candidate, one parser, delivered as --probe=v, --probe v, through the environment or on a cloned command; switches through the environment); probes of external-subcommand words and of group ids",
            real_components: &["ArgMatches::try_get_* / try_remove_* / try_clear_id / try_contains_id", "MatchedArg, AnyValue (Arc sharing, downcast_into)", "the built-in value parsers that produced the values"],
            stub_components: &["reference model: id -> (type tag, raw values per occurrence, removed?) per copy; own decimal reader and literal tables for the typed reading"],
            workload_only_clauses: &["the language-equality clause (accepted set == specified set at every boundary) is only exercised as far as the workload's boundary values reach: accepted values are checked to be inside the language, rejected ones are not attributed"],
            assumptions: &["narrow claim: access-history atomicity and clone isolation; thread interleavings over the shared Arcs are not simulated (clap owns no synchronisation)", "Unknown-id detection needs debug assertions (on in this build)"],
            abort_is_violation: false,
        }
    }
    fn runs(&self, tier: Tier) -> u64 {
        match tier {
            Tier::Quick => 400_000,
            Tier::Thorough => 10_000_000,
        }
    }
    fn heartbeat(&self) -> u64 {
        512
    }
    fn gen(&self, rng: &mut Rng, _tier: Tier) -> C04Sc {
        let mut cfg = GenCfg::parse_heavy();
        cfg.allow_multicall = false;
        cfg.allow_no_binary_name = false;
        cfg.allow_ignore_errors = false;
        let mut best: Option<(CmdSpec, Vec<B>)> = None;
        for _ in 0..6 {
            let spec = gen_tree(rng, &cfg);
            if gate(&spec).is_err() {
                continue;
            }
            for _ in 0..4 {
                let argv = gen_argv(rng, &spec, 8);
                let mut c = build_cmd(&spec);
                if matches!(catch(|| c.try_get_matches_from_mut(full_argv(&spec, "prog", &argv))), Ok(Ok(_))) {
                    best = Some((spec.clone(), argv));
                    break;
                }
            }
            if best.is_some() {
                break;
            }
            if best.is_none() {
                best = Some((spec, vec![]));
            }
        }
        let (spec, argv) = best.unwrap_or((CmdSpec { name: "prog".into(), ..Default::default() }, vec![]));
        let n = rng.urange(2, 16);
        let ops = (0..n)
            .map(|_| AOp {
                on_clone: rng.coin(),
                acc: *rng.pick(&[Acc::GetOne, Acc::GetMany, Acc::GetOccurrences, Acc::RemoveOne, Acc::RemoveMany, Acc::RemoveOccurrences, Acc::RemoveOne, Acc::RemoveMany, Acc::GetRaw, Acc::Contains, Acc::Clear]),
                id: match rng.below(10) {
                    0 => IdSel::Unknown,
                    1 => IdSel::Group,
                    2 => IdSel::External,
                    _ => IdSel::Arg(rng.below(16) as u8),
                },
                ask: if rng.chance(2, 5) { Some(*rng.pick(&[Ty::Str, Ty::Os, Ty::Path, Ty::I64, Ty::U16, Ty::U8, Ty::Bool, Ty::I32, Ty::U64])) } else { None },
                cand: None,
                via: 0,
                panicking: rng.chance(1, 4),
            })
            .collect();
        let mut ops: Vec<AOp> = ops;
        // language probes on boundary candidates (root-level arguments)
        for _ in 0..rng.usize(4) {
            if spec.args.is_empty() {
                break;
            }
            let k = rng.below(16) as u8;
            let a = &spec.args[k as usize % spec.args.len()];
            let cand = lang_candidate(rng, a);
            let at = rng.usize(ops.len() + 1);
            let via = rng.weighted(&[4, 2, 3, 3]) as u8;
            ops.insert(at, AOp { on_clone: false, acc: Acc::Lang, id: IdSel::Arg(k), ask: None, cand: Some(cand), via, panicking: false });
        }
        C04Sc { spec, argv, depth: rng.below(3) as u8, ops }
    }
    fn exec(&self, sc: &C04Sc, log: &mut Log) -> Outcome {
        let mut out = Outcome::default();
        if gate(&sc.spec).is_err() {
            out.count("misc.specs_rejected_by_gate");
            return out;
        }
        let r = catch(|| exec_access(sc, log, &mut out));
        if let Err(p) = r {
            if panic_in_harness(&p) {
                out.violate("HARNESS-PANIC", short_file(&p), format!("{} at {}", p.msg, p.loc));
            } else {
                out.violate("panic", short_file(&p), format!("{} at {}", p.msg, p.loc));
            }
        }
        out
    }
    fn shrink(&self, sc: &C04Sc) -> Vec<C04Sc> {
        let mut c = Vec::new();
        for i in 0..sc.ops.len() {
            if sc.ops.len() > 1 {
                let mut s = sc.clone();
                s.ops.remove(i);
                c.push(s);
            }
        }
        for sp in shrink_spec(&sc.spec) {
            let mut s = sc.clone();
            s.spec = sp;
            c.push(s);
        }
        for a in shrink_argv(&sc.argv) {
            let mut s = sc.clone();
            s.argv = a;
            c.push(s);
        }
        if sc.depth > 0 {
            let mut s = sc.clone();
            s.depth -= 1;
            c.push(s);
        }
        c
    }
}

fn lang_candidate(rng: &mut Rng, a: &ArgSpec) -> B {
    if matches!(a.action, Action::SetTrue | Action::SetFalse) {
        return B::s(*rng.pick(&["true", "false", "TRUE", "False", "1", "0", "yes", "no", "on", "off", "t", "", " true", "y"]));
    }
    let flip_case = |s: &str, rng: &mut Rng| -> String { s.chars().map(|c| if rng.coin() { c.to_ascii_uppercase() } else { c.to_ascii_lowercase() }).collect() };
    // ASCII case differs in bit 0x20 -- but only for letters: `-` vs CR, `_` vs DEL, `0` vs DLE are different
    // characters, not case variants
    let flip_bit5_of_non_letter = |s: &str, rng: &mut Rng| -> B {
        let mut b = s.as_bytes().to_vec();
        let idx: Vec<usize> = b.iter().enumerate().filter(|(_, c)| c.is_ascii() && !c.is_ascii_alphabetic()).map(|(i, _)| i).collect();
        if let Some(i) = rng.pick_opt(&idx) {
            b[*i] ^= 0x20;
        }
        B(b)
    };
    match &a.parser {
        ValParser::I64 { lo, hi } => {
            let (lo, hi) = (*lo as i128, *hi as i128);
            let n = *rng.pick(&[lo, hi, lo - 1, hi + 1, 0, -1, 1, i64::MAX as i128, i64::MAX as i128 + 1, i64::MIN as i128, i64::MIN as i128 - 1, u64::MAX as i128, 1i128 << 70]);
            match rng.below(8) {
                0 => B::s(&format!("+{n}")),
                1 => B::s(&format!("00{n}")),
                2 => B::s(&format!(" {n}")),
                3 => B::s(&format!("{n} ")),
                4 => B::s(*rng.pick(&["", "-", "+", "0x10", "1e3", "1_000", "\u{661}", "--5", "5.0"])),
                5 => B(vec![b'1', 0xff]),
                _ => B::s(&n.to_string()),
            }
        }
        ValParser::U16 => B::s(*rng.pick(&["0", "65535", "65536", "-0", "-1", "+7", "007", "", "1e2", " 1"])),
        ValParser::Int { w, range } => {
            let (tl, th) = w.limits();
            let (lo, hi) = w.language(*range);
            let n = *rng.pick(&[tl, th, tl - 1, th + 1, lo, hi, lo - 1, hi + 1, 0, -1, th + 256, tl - 256, (th + 1) * 2, 1i128 << 64, -(1i128 << 63) - 1]);
            match rng.below(6) {
                0 => B::s(&format!("+{n}")),
                1 => B::s(&format!("0{n}")),
                2 => B::s(*rng.pick(&["", "-", "1 ", "0x1", "1.0"])),
                _ => B::s(&n.to_string()),
            }
        }
        ValParser::Edge(k) => {
            let (_, lo, hi) = edge_language(*k);
            let n = *rng.pick(&[0, 0, 1, -1, lo, hi, lo - 1, hi + 1, i64::MIN as i128, i64::MAX as i128, u64::MAX as i128, u64::MAX as i128 + 1, i64::MIN as i128 - 1]);
            match rng.below(6) {
                0 => B::s(&format!("+{n}")),
                1 => B::s(&format!("0{n}")),
                _ => B::s(&n.to_string()),
            }
        }
        ValParser::EnumVp => {
            let base = rng.pick(SIM_ENUM_LANGUAGE).0.to_string();
            match rng.below(7) {
                5 => flip_bit5_of_non_letter(&base, rng),
                0 => B::s(&flip_case(&base, rng)),
                1 => B::s(&base.to_uppercase()),
                2 => B::s(&format!("{base}x")),
                3 => B::s(*rng.pick(&["", "HiddenOne", "Fast", "hidden_one", "sl"])),
                _ => B::s(&base),
            }
        }
        ValParser::Bool => B::s(*rng.pick(&["true", "false", "TRUE", "True", "t", "f", "1", "0", "yes", "", " true", "true\n", "false\r"])),
        ValParser::Boolish => B::s(*rng.pick(&["y", "YES", "t", "True", "ON", "1", "n", "No", "F", "false", "oFF", "0", "2", "maybe", "", "on ", "yes\n", "0\r", "no\r\n", "\ntrue"])),
        ValParser::Possible(pvs) => {
            let p = rng.pick(pvs);
            let base = if !p.aliases.is_empty() && rng.coin() { p.aliases[0].clone() } else { p.name.clone() };
            match rng.below(7) {
                0 => B::s(&flip_case(&base, rng)),
                1 => B::s(&base.to_uppercase()),
                2 => B::s(&base[..base.len() - 1]),
                3 => B::s(&format!("{base}x")),
                4 => B::s(""),
                5 => flip_bit5_of_non_letter(&base, rng),
                _ => B::s(&base),
            }
        }
        ValParser::Os | ValParser::Path => match rng.below(4) {
            0 => B(vec![b'c', b'a', b'f', 0xe9]),
            1 => B(vec![0xff]),
            _ => B::s(*rng.pick(&["v", "", "-x", "a b"])),
        },
        _ => B::s(*rng.pick(&["v", "", "-x", "a b"])),
    }
}

/// One candidate against one argument's value parser in isolation (a fresh single-argument command):
/// accepted iff the independent reading admits it, and then the typed value equals that reading.
fn lang_probe(a: &ArgSpec, cand: &B, via: u8) -> Option<String> {
    if matches!(a.action, Action::SetTrue | Action::SetFalse) {
        // a switch reads a value only from its environment variable, through the strict boolean parser
        if cand.0.contains(&0) {
            return None;
        }
        const PROBE_ENV: &str = "CLAPSIM_C04_PROBE";
        let mut iso = ArgSpec::new("probe", a.action);
        iso.long = Some("probe".into());
        iso.env = Some(PROBE_ENV.into());
        iso.ignore_case = a.ignore_case;
        std::env::set_var(PROBE_ENV, cand.os());
        let spec = CmdSpec { name: "prog".into(), args: vec![iso], ..Default::default() };
        let mut cmd = build_cmd(&spec);
        std::env::remove_var(PROBE_ENV);
        let r = match catch(|| cmd.try_get_matches_from_mut(vec![OsString::from("prog")])) {
            Ok(r) => r,
            Err(p) => return Some(format!("parsing the environment value {} for a {:?} switch panicked: {} at {}", cand.esc(), a.action, p.msg, p.loc)),
        };
        let want = match &cand.0[..] {
            b"true" => Some(true),
            b"false" => Some(false),
            _ => None,
        };
        return match (r, want) {
            (Ok(m), Some(w)) => match m.try_get_one::<bool>("probe") {
                Ok(Some(v)) if *v == w => None,
                other => Some(format!("environment value {} for a {:?} switch: typed value {:?}, the literal reads {w}", cand.esc(), a.action, other.map(|o| o.copied()).map_err(|e| err_kind(&e)))),
            },
            (Ok(_), None) => Some(format!("environment value {} is accepted for a {:?} switch but is not one of the literals `true` / `false`", cand.esc(), a.action)),
            (Err(e), Some(_)) => Some(format!("environment value {} is a boolean literal but the {:?} switch rejects it with {:?}", cand.esc(), a.action, e.kind())),
            (Err(e), None) => {
                if matches!(e.kind(), clap::error::ErrorKind::InvalidValue | clap::error::ErrorKind::ValueValidation | clap::error::ErrorKind::InvalidUtf8) {
                    None
                } else {
                    Some(format!("environment value {} for a {:?} switch: rejected with {:?}, which is not a value error", cand.esc(), a.action, e.kind()))
                }
            }
        };
    }
    if !a.action.takes_values() {
        return None;
    }
    if matches!(a.parser, ValParser::Os | ValParser::Path) && via == 1 {
        // the OS-string parser behind a `try_map` adapter whose function rejects what is not UTF-8: accepted
        // values come back mapped, rejected ones as a value error naming the argument (never a panic)
        use clap::builder::TypedValueParser;
        let vp = clap::builder::OsStringValueParser::new().try_map(|s: OsString| s.into_string().map_err(|_| "not valid UTF-8"));
        let mut cmd = clap::Command::new("prog").arg(clap::Arg::new("probe").long("probe").action(clap::ArgAction::Set).value_parser(vp));
        let mut tok = b"--probe=".to_vec();
        tok.extend_from_slice(&cand.0);
        let r = match catch(|| cmd.try_get_matches_from_mut(vec![OsString::from("prog"), B(tok).os()])) {
            Ok(r) => r,
            Err(p) => return Some(format!("parsing candidate {} through a try_map adapter panicked: {} at {}", cand.esc(), p.msg, p.loc)),
        };
        return match (r, std::str::from_utf8(&cand.0)) {
            (Ok(m), Ok(t)) => match m.try_get_one::<String>("probe") {
                Ok(Some(v)) if v == t => None,
                other => Some(format!("candidate {} through a try_map adapter: typed value {:?}", cand.esc(), other.map_err(|e| err_kind(&e)))),
            },
            (Ok(_), Err(_)) => Some(format!("candidate {} is accepted although the adapter's function rejects it", cand.esc())),
            (Err(e), Ok(_)) => Some(format!("candidate {} is rejected ({:?}) although the adapter's function accepts it", cand.esc(), e.kind())),
            (Err(e), Err(_)) => {
                let text = e.to_string();
                if e.kind() == clap::error::ErrorKind::ValueValidation && text.contains("for '--probe") {
                    None
                } else {
                    Some(format!("candidate {} rejected by the adapter's function: kind {:?}, text {text:?} (a value error naming the argument is required)", cand.esc(), e.kind()))
                }
            }
        };
    }
    let mut iso = ArgSpec::new("probe", Action::Set);
    iso.long = Some("probe".into());
    iso.parser = a.parser.clone();
    iso.ignore_case = a.ignore_case;
    // a separate token that starts with `-` is not a value, and an environment value cannot hold NUL
    let via = match via {
        1 if cand.0.first() == Some(&b'-') => 0,
        2 if cand.0.contains(&0) => 0,
        v => v,
    };
    const PROBE_ENV: &str = "CLAPSIM_C04_PROBE";
    if via == 2 {
        iso.env = Some(PROBE_ENV.into());
        std::env::set_var(PROBE_ENV, cand.os());
    }
    let spec = CmdSpec { name: "prog".into(), args: vec![iso.clone()], ..Default::default() };
    let mut cmd = build_cmd(&spec);
    if via == 2 {
        std::env::remove_var(PROBE_ENV);
    }
    if via == 3 {
        cmd = cmd.clone();
    }
    let argv = match via {
        1 => vec![OsString::from("prog"), OsString::from("--probe"), cand.os()],
        2 => vec![OsString::from("prog")],
        _ => {
            let mut tok = b"--probe=".to_vec();
            tok.extend_from_slice(&cand.0);
            vec![OsString::from("prog"), B(tok).os()]
        }
    };
    let r = match catch(|| cmd.try_get_matches_from_mut(argv)) {
        Ok(r) => r,
        Err(p) => return Some(format!("parsing candidate {} for {:?} panicked: {} at {}", cand.esc(), a.parser, p.msg, p.loc)),
    };
    if iso.parser == ValParser::EnumVp {
        // the typed value is the variant whose name or alias was spelled
        let want = std::str::from_utf8(&cand.0).ok().and_then(|t| SIM_ENUM_LANGUAGE.iter().find(|(n, _)| if iso.ignore_case { n.eq_ignore_ascii_case(t) } else { *n == t })).map(|(_, v)| v.to_string());
        return match (r, want) {
            (Ok(m), Some(w)) => match m.try_get_one::<SimEnum>("probe") {
                Ok(Some(v)) if format!("{v:?}") == w => None,
                other => Some(format!("candidate {} for the enum value parser (ignore_case={}): typed value {:?}, the declared variant is {w}", cand.esc(), iso.ignore_case, other.map(|o| o.map(|v| format!("{v:?}"))))),
            },
            (Ok(_), None) => Some(format!("candidate {} is accepted by the enum value parser (ignore_case={}) but is no declared name or alias", cand.esc(), iso.ignore_case)),
            (Err(e), Some(w)) => Some(format!("candidate {} is a declared name or alias of variant {w} (ignore_case={}) but the enum value parser rejects it with {:?}", cand.esc(), iso.ignore_case, e.kind())),
            (Err(e), None) => {
                if matches!(e.kind(), clap::error::ErrorKind::InvalidValue | clap::error::ErrorKind::ValueValidation | clap::error::ErrorKind::InvalidUtf8) {
                    None
                } else {
                    Some(format!("candidate {} for the enum value parser: rejected with {:?}, which is not a value error", cand.esc(), e.kind()))
                }
            }
        };
    }
    let ty = ty_of(&iso)?;
    let want = if crate::c06::value_ok(&iso, &cand.0).is_ok() { canonical(&iso, ty, &cand.0) } else { None };
    match (r, want) {
        (Ok(mut m), Some(w)) => match access(&mut m, Acc::GetOne, "probe", ty) {
            Got::One(g) if g == w => None,
            Got::One(g) => Some(format!("candidate {} for {:?}: typed value {g}, an independent reading gives {w}", cand.esc(), a.parser)),
            _ => Some(format!("candidate {} for {:?}: accepted but no typed value", cand.esc(), a.parser)),
        },
        (Ok(_), None) => Some(format!("candidate {} is accepted by {:?} (ignore_case={}) but is outside the specified language", cand.esc(), a.parser, a.ignore_case)),
        (Err(e), Some(w)) => Some(format!("candidate {} is inside the language of {:?} (ignore_case={}, reads as {w}) but is rejected with {:?}", cand.esc(), a.parser, a.ignore_case, e.kind())),
        (Err(e), None) => {
            if matches!(e.kind(), clap::error::ErrorKind::InvalidValue | clap::error::ErrorKind::ValueValidation) {
                // "... rejected with a value error naming the argument"
                let text = e.to_string();
                // "invalid value '<the value>' for '--probe <probe>'": the argument in the argument's place
                if text.contains("for '--probe") {
                    None
                } else {
                    Some(format!("candidate {} for {:?}: the value error does not name the argument: {text:?}", cand.esc(), a.parser))
                }
            } else if e.kind() == clap::error::ErrorKind::InvalidUtf8 {
                None
            } else {
                Some(format!("candidate {} for {:?}: rejected with {:?}, which is not a value error", cand.esc(), a.parser, e.kind()))
            }
        }
    }
}

fn exec_access(sc: &C04Sc, log: &mut Log, out: &mut Outcome) {
    let mut cmd = build_cmd(&sc.spec);
    let full = full_argv(&sc.spec, "prog", &sc.argv);
    let root = match cmd.try_get_matches_from_mut(full) {
        Ok(m) => m,
        Err(e) => {
            ev!(log, "parse failed: {:?}", e.kind());
            out.count("misc.argv_did_not_parse");
            return;
        }
    };
    // descend
    let mut level = &sc.spec;
    let mut globals: Vec<&ArgSpec> = Vec::new();
    let mut m0: &ArgMatches = &root;
    for _ in 0..sc.depth {
        match m0.subcommand() {
            Some((name, sub)) => match level.subs.iter().find(|s| s.name == name) {
                Some(s) => {
                    // `prog -- name` under allow_external_subcommands yields an EXTERNAL subcommand that merely
                    // shares the name: its matches do not know the real subcommand's ids
                    if matches!(sub.try_contains_id(""), Ok(true)) {
                        break;
                    }
                    for a in level.args.iter().filter(|a| a.global) {
                        globals.push(a);
                    }
                    level = s;
                    m0 = sub;
                }
                None => {
                    // an EXTERNAL subcommand: its words are stored under the id "" with the type of the external
                    // value parser (OsString unless the command declares another one) -- also when there are no
                    // words at all; a wrong-type access fails and leaves them alone
                    if level.has(CmdSetting::AllowExternalSubcommands) && matches!(sub.try_contains_id(""), Ok(true)) {
                        let mut ext = sub.clone();
                        let words = |m: &ArgMatches, string_typed: bool| -> Result<Option<Vec<String>>, String> {
                            if string_typed {
                                m.try_get_many::<String>("").map(|o| o.map(|v| v.cloned().collect())).map_err(|e| err_kind(&e).to_string())
                            } else {
                                m.try_get_many::<OsString>("").map(|o| o.map(|v| v.map(|x| esc(x.as_bytes())).collect())).map_err(|e| err_kind(&e).to_string())
                            }
                        };
                        let string_typed = level.ext_parser != 0;
                        let before = words(&ext, string_typed);
                        out.comparisons += 1;
                        out.count("op.external_subcommand_words_probed");
                        if before.is_err() {
                            out.violate("right-access-failed", "external-subcommand".to_string(), format!("external subcommand `{name}`: reading its words with the declared type fails: {before:?}"));
                            return;
                        }
                        let wrong_get = ext.try_get_many::<u8>("").map(|o| o.map(|v| v.count()));
                        let wrong_remove = ext.try_remove_many::<bool>("").map(|o| o.map(|v| v.count()));
                        out.count("fault.wrong_type_access_on_external_subcommand");
                        if wrong_get.is_ok() || wrong_remove.is_ok() {
                            out.violate("wrong-type-not-rejected", "external-subcommand".to_string(), format!("external subcommand `{name}` with words {before:?}: try_get_many::<u8>(\"\") = {:?}, try_remove_many::<bool>(\"\") = {:?}; both must fail with Downcast", wrong_get.map_err(|e| err_kind(&e)), wrong_remove.map_err(|e| err_kind(&e))));
                            return;
                        }
                        let after = words(&ext, string_typed);
                        if after != before {
                            out.violate("stored-values-disturbed", "external-subcommand".to_string(), format!("external subcommand `{name}`: words were {before:?}, after two failing wrong-type accesses they are {after:?}"));
                            return;
                        }
                    }
                    break;
                }
            },
            None => break,
        }
    }
    let args: Vec<&ArgSpec> = level.args.iter().chain(globals.iter().copied()).filter(|a| ty_of(a).is_some()).collect();
    let mut orig = m0.clone();
    let mut copy = orig.clone();
    // model from the reported raw strings
    let mut model: [BTreeMap<String, Entry>; 2] = [BTreeMap::new(), BTreeMap::new()];
    for a in &args {
        let ty = ty_of(a).unwrap();
        if let Ok(Some(occ)) = orig.try_get_raw_occurrences(&a.id) {
            let raw: Vec<Vec<Vec<u8>>> = occ.map(|g| g.map(|v| v.as_bytes().to_vec()).collect()).collect();
            let mut typed = Vec::new();
            for g in &raw {
                let mut tg = Vec::new();
                for v in g {
                    match canonical(a, ty, v) {
                        Some(c) => tg.push(c),
                        None => {
                            out.comparisons += 1;
                            out.violate("value-outside-language", format!("{ty:?}"), format!("argument {} holds raw value {} which the parser's language does not admit", a.id, esc(v)));
                            return;
                        }
                    }
                }
                typed.push(tg);
            }
            let e = Entry { typed, raw };
            model[0].insert(a.id.clone(), e.clone());
            model[1].insert(a.id.clone(), e);
        }
    }
    let mut shape = ShapeHasher::new();
    shape.add(args.len() as u64);
    let mut faults = 0;
    for (i, op) in sc.ops.iter().enumerate() {
        out.steps += 1;
        let which = op.on_clone as usize;
        let (id, arg): (String, Option<&ArgSpec>) = match op.id {
            IdSel::Arg(k) => {
                if args.is_empty() {
                    continue;
                }
                let a = args[k as usize % args.len()];
                (a.id.clone(), Some(a))
            }
            IdSel::Unknown => ("no-such-id".to_string(), None),
            IdSel::Group => match level.groups.first() {
                Some(g) => (g.id.clone(), None),
                None => continue,
            },
            IdSel::External => (String::new(), None),
        };
        if op.acc == Acc::Lang {
            if let (IdSel::Arg(k), Some(cand)) = (op.id, &op.cand) {
                if !sc.spec.args.is_empty() {
                    let a = &sc.spec.args[k as usize % sc.spec.args.len()];
                    out.comparisons += 1;
                    out.count("op.language_probe");
                    out.count_dyn(format!("op.language_probe_via_{}", ["equals", "separate_token", "environment", "cloned_command"][op.via as usize % 4]));
                    if let Some(d) = lang_probe(a, cand, op.via % 4) {
                        out.violate("language-differs", format!("{:?}", a.parser).split(|c: char| !c.is_alphanumeric()).next().unwrap_or("").to_string(), format!("op {i}: {d}"));
                        return;
                    }
                    ev!(log, "op {i}: language probe {} <- {}", a.id, cand.esc());
                }
            }
            continue;
        }
        let own = arg.and_then(|a| ty_of(a));
        let ask = op.ask.or(own).unwrap_or(Ty::Str);
        shape.add(op.acc as u64 * 8 + ask as u64);
        let target = if op.on_clone { &mut copy } else { &mut orig };
        let group_before = if op.id == IdSel::Group { Some(group_ids(target, &id)) } else { None };
        let got = if op.panicking {
            out.count("op.access_through_panicking_api");
            match access_panicking(target, op.acc, &id, ask) {
                Ok(g) => g,
                Err(p) => {
                    out.violate("panic", short_file(&p), format!("op {i}: {:?}<{ask:?}>({id:?}) through the panicking API: {} at {}", op.acc, p.msg, p.loc));
                    return;
                }
            }
        } else {
            access(target, op.acc, &id, ask)
        };
        let group_after = if op.id == IdSel::Group { Some(group_ids(target, &id)) } else { None };
        let is_typed = !matches!(op.acc, Acc::GetRaw | Acc::Contains | Acc::Clear);
        let is_remove = matches!(op.acc, Acc::RemoveOne | Acc::RemoveMany | Acc::RemoveOccurrences);
        out.comparisons += 1;
        let entry = model[which].get(&id).cloned();
        let desc = format!("op {i}: {:?}<{ask:?}>({id:?}) on the {}", op.acc, if op.on_clone { "clone" } else { "original" });
        ev!(log, "{desc} -> {}", match &got {
            Got::Err(e) => format!("Err({e})"),
            Got::NoneV => "None".into(),
            Got::One(s) => s.clone(),
            Got::Many(v) => format!("{v:?}"),
            Got::Occ(v) => format!("{v:?}"),
            Got::Bool(b) => b.to_string(),
        });
        match (op.id, arg) {
            (IdSel::Unknown, _) => {
                faults += 1;
                out.count("fault.unknown_id_access");
                if !matches!(got, Got::Err("UnknownArgument")) {
                    out.violate("unknown-id-not-rejected", format!("{:?}", op.acc), format!("{desc}: an unknown id must give UnknownArgument"));
                    return;
                }
            }
            (IdSel::Group | IdSel::External, _) => {
                // ids that exist but are not typed arguments of the model: must not panic; a typed access may
                // succeed or fail with Downcast, nothing else is asserted here
                if matches!(got, Got::Err("UnknownArgument")) {
                    out.violate("known-id-rejected", format!("{:?}", op.acc), format!("{desc}: a group / external-subcommand id is a known id"));
                    return;
                }
                // a group stores the ids of its present members: no typed access of this workload has that
                // type, so every typed remove fails (or finds nothing) and must leave the group as it was
                let legit_change = op.acc == Acc::Clear || matches!(got, Got::One(_) | Got::Many(_) | Got::Occ(_));
                if op.id == IdSel::Group && !legit_change && group_before != group_after {
                    if matches!(got, Got::Err(_)) {
                        faults += 1;
                        out.count("fault.wrong_type_access_on_group");
                    }
                    out.violate("stored-values-disturbed", format!("group/{:?}", op.acc), format!("{desc}: the group held {:?} before the call and holds {:?} after it", group_before, group_after));
                    return;
                }
                if op.id == IdSel::Group && matches!(got, Got::Err(_)) {
                    faults += 1;
                    out.count("fault.wrong_type_access_on_group");
                }
            }
            (IdSel::Arg(_), Some(_a)) => {
                let own = own.unwrap();
                // the argument's type is known from its value parser even when the entry holds no value at all
                // (a bare `--opt` with num_args(0..)): a wrong type fails there too
                let wrong = is_typed && ask != own && entry.is_some();
                if wrong {
                    faults += 1;
                    out.count(if is_remove { "fault.wrong_type_remove" } else { "fault.wrong_type_get" });
                    if !matches!(got, Got::Err("Downcast")) {
                        out.violate("wrong-type-not-rejected", format!("{:?}", op.acc), format!("{desc}: the argument holds {own:?} values, asking for {ask:?} must give a Downcast error"));
                        return;
                    }
                } else {
                    match (&entry, &got) {
                        (_, Got::Err(e)) => {
                            if is_typed && ask != own {
                                // an entry without values carries no type: either answer is fine
                            } else {
                                out.violate("right-access-failed", format!("{:?}", op.acc), format!("{desc}: failed with {e} although the id exists and the type is right"));
                                return;
                            }
                        }
                        (None, Got::NoneV) => {}
                        (None, Got::Bool(false)) => {}
                        (None, other) => {
                            let s = matches!(other, Got::Bool(true));
                            out.violate("removed-value-visible", format!("{:?}", op.acc), format!("{desc}: the id is absent (or was removed from this copy) but the access returned {}", if s { "true".to_string() } else { "a value".to_string() }));
                            return;
                        }
                        (Some(e), g) => {
                            let flat: Vec<String> = e.typed.iter().flatten().cloned().collect();
                            let ok = match (op.acc, g) {
                                (Acc::GetOne | Acc::RemoveOne, Got::One(s)) => flat.first() == Some(s),
                                (Acc::GetOne | Acc::RemoveOne, Got::NoneV) => flat.is_empty(),
                                (Acc::GetMany | Acc::RemoveMany, Got::Many(v)) => *v == flat,
                                (Acc::GetOccurrences | Acc::RemoveOccurrences, Got::Occ(v)) => *v == e.typed,
                                (Acc::GetRaw, Got::Many(v)) => *v == e.raw.iter().flatten().map(|x| esc(x)).collect::<Vec<_>>(),
                                (Acc::Contains, Got::Bool(b)) => *b,
                                (Acc::Clear, Got::Bool(b)) => *b,
                                _ => false,
                            };
                            if !ok {
                                out.violate("typed-value-differs", format!("{:?}/{own:?}", op.acc), format!("{desc}: the stored raw values are {:?} (typed reading {:?}) but the access returned something else", e.raw.iter().map(|g| g.iter().map(|v| esc(v)).collect::<Vec<_>>()).collect::<Vec<_>>(), e.typed));
                                return;
                            }
                            if (is_remove || op.acc == Acc::Clear) && !matches!(g, Got::Err(_)) {
                                model[which].remove(&id);
                                faults += 1;
                                out.count("fault.removal_on_one_copy");
                            }
                        }
                    }
                }
            }
            _ => {}
        }
        // cross-invariant after every step: both copies still hold exactly what the model says
        for (w, m) in [(0usize, &orig), (1usize, &copy)] {
            for a in &args {
                let want = model[w].get(&a.id).map(|e| e.raw.clone());
                let got: Option<Vec<Vec<Vec<u8>>>> = m.try_get_raw_occurrences(&a.id).ok().flatten().map(|occ| occ.map(|g| g.map(|v| v.as_bytes().to_vec()).collect()).collect());
                if got != want {
                    out.violate("stored-values-disturbed", format!("{:?}", op.acc), format!("after {desc}: argument {} on the {} now holds {:?}, the model says {:?}", a.id, if w == 1 { "clone" } else { "original" }, got.map(|o| o.iter().map(|g| g.iter().map(|v| esc(v)).collect::<Vec<_>>()).collect::<Vec<_>>()), want.map(|o| o.iter().map(|g| g.iter().map(|v| esc(v)).collect::<Vec<_>>()).collect::<Vec<_>>())));
                    return;
                }
                // the typed view must survive as well (a failed downcast must not consume the Arc)
                if let (Some(e), Some(ty)) = (model[w].get(&a.id), ty_of(a)) {
                    let mut mm = m.clone();
                    if let Got::Many(v) = access(&mut mm, Acc::GetMany, &a.id, ty) {
                        if v != e.typed.iter().flatten().cloned().collect::<Vec<_>>() {
                            out.violate("stored-values-disturbed", format!("{:?}", op.acc), format!("after {desc}: typed values of {} on the {} changed to {:?}", a.id, if w == 1 { "clone" } else { "original" }, v));
                            return;
                        }
                    }
                }
            }
        }
    }
    out.nontrivial = sc.ops.len() >= 2 && faults > 0;
    out.shape = shape.get();
}
