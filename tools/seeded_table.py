#!/usr/bin/env python3
"""Print the markdown table of DESIGN.md section 12.6 from seeded/*/meta.json, seeded/RESULTS.json
(written by tools/seeded_all.py) and seeded/HISTORY.json (what happened on the first run)."""
import json, os
V = os.path.dirname(os.path.dirname(os.path.abspath(__file__)))
res = json.load(open(f"{V}/seeded/RESULTS.json"))
hist = json.load(open(f"{V}/seeded/HISTORY.json"))
print("| id | change | result (quick tier) | history |\n|---|---|---|---|")
for d in sorted(x for x in os.listdir(f"{V}/seeded") if os.path.isdir(f"{V}/seeded/{x}")):
    m = json.load(open(f"{V}/seeded/{d}/meta.json"))
    r = ", ".join(f"{k}: {v['status']}" for k, v in res.get(d, {}).items() if isinstance(v, dict))
    print(f"| {d} | {m['title'][:110].replace('|', '/')} | {r} | {hist.get(d, '')} |")
