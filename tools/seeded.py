#!/usr/bin/env python3
"""Evaluate an independently seeded change (written by a sub-agent in its own worktree).

  tools/seeded.py verify <PROP> <k>     in /tmp/wt-<PROP>: existing suite green with the patch,
                                        demo fails with it and passes without (writes verify.json)
  tools/seeded.py check  <PROP> <k> [--props P1,P2]
                                        apply the patch to /repo, run ./check <PROP> quick, undo
  tools/seeded.py keep   <PROP> <k>     copy patch, demo, notes and meta.json to /verif/seeded/<PROP>-<k>/

Nothing is ever committed to /repo; every patch is undone with `git checkout -- .` straight away.
"""
import json, os, re, shutil, subprocess, sys, time

VERIF = os.path.dirname(os.path.dirname(os.path.abspath(__file__)))
ENV = dict(os.environ, CARGO_NET_OFFLINE="true")


def sh(cmd, cwd=None, timeout=3600):
    r = subprocess.run(cmd, shell=True, cwd=cwd, capture_output=True, text=True, env=ENV, timeout=timeout)
    return r.returncode, r.stdout + r.stderr


def wt(prop, k):
    k = int(k)
    return f"/tmp/wt10-{prop}" if k >= 28 else f"/tmp/wt9-{prop}" if k >= 25 else f"/tmp/wt-{prop}"


def parse_notes(d):
    notes = open(os.path.join(d, "notes.md")).read()
    m = re.search(r"`((?:[\w\-\.]+/)*tests/[\w\-\.]+\.rs)`", notes)
    dest = m.group(1) if m else None
    m = re.search(r"(cargo test [^`\n]*--test [\w\-]+[^`\n]*)", notes)
    cmd = m.group(1).strip() if m else None
    if cmd and "--offline" not in cmd:
        cmd += " --offline"
    return notes, dest, cmd


def verify(prop, k):
    w = wt(prop, k)
    d = f"{w}/.mut/{k}"
    notes, dest, cmd = parse_notes(d)
    res = {"property": prop, "k": k, "demo_dest": dest, "demo_cmd": cmd}
    if not dest or not cmd:
        res["error"] = "could not parse demo destination / command from notes.md"
        json.dump(res, open(f"{d}/verify.json", "w"), indent=1)
        print(json.dumps(res)); return 2
    sh("git checkout -- . ", cwd=w)
    demo_path = os.path.join(w, dest)
    if os.path.exists(demo_path):
        os.remove(demo_path)
    rc, out = sh(f"git apply {d}/patch.diff", cwd=w)
    res["patch_applies"] = rc == 0
    if rc != 0:
        res["error"] = out[-400:]
        json.dump(res, open(f"{d}/verify.json", "w"), indent=1)
        print(json.dumps(res)); return 2
    t = time.time()
    rc, out = sh("cargo test --workspace --no-fail-fast --offline", cwd=w, timeout=7200)
    passed = sum(int(x) for x in re.findall(r"test result: \w+\. (\d+) passed", out))
    failed = sum(int(x) for x in re.findall(r"test result: \w+\. \d+ passed; (\d+) failed", out))
    res["suite_with_patch"] = {"exit": rc, "passed": passed, "failed": failed, "seconds": round(time.time() - t)}
    if rc != 0:
        res["suite_failures"] = re.findall(r"^test (\S+) \.\.\. FAILED", out, re.M)[:10] + re.findall(r"error(?:\[E\d+\])?: [^\n]+", out)[:5]
    shutil.copy(f"{d}/demo.rs", demo_path)
    rc, out = sh(cmd, cwd=w, timeout=3600)
    res["demo_with_patch_exit"] = rc
    res["demo_with_patch_tail"] = out[-600:]
    sh("git checkout -- .", cwd=w)
    rc, out = sh(cmd, cwd=w, timeout=3600)
    res["demo_without_patch_exit"] = rc
    os.remove(demo_path)
    res["verified"] = res["suite_with_patch"]["exit"] == 0 and res["suite_with_patch"]["failed"] == 0 and res["demo_with_patch_exit"] != 0 and res["demo_without_patch_exit"] == 0
    json.dump(res, open(f"{d}/verify.json", "w"), indent=1)
    print(json.dumps({k2: v for k2, v in res.items() if k2 != "demo_with_patch_tail"}))
    return 0 if res["verified"] else 1


def check(prop, k, props=None):
    d = f"{wt(prop, k)}/.mut/{k}"
    if not os.path.isdir(d):
        d = f"{VERIF}/seeded/{prop}-{k}"
    rc, out = sh("git -C /repo status --porcelain --untracked-files=no")
    if out.strip():
        print("refusing: /repo has uncommitted changes"); return 2
    rc, out = sh(f"git -C /repo apply {d}/patch.diff")
    if rc != 0:
        print("patch does not apply to /repo:", out[-300:]); return 2
    results = {}
    try:
        for p in (props or [prop]):
            t = time.time()
            rc, out = sh(f"{VERIF}/check {p} quick", timeout=3600)
            det = [l.strip() for l in out.splitlines() if l.startswith("  clause=")]
            results[p] = {"exit": rc, "status": {0: "MISSED", 1: "caught", 2: "harness-error"}.get(rc, str(rc)), "first": det[0][:400] if det else "", "seconds": round(time.time() - t, 1)}
            if rc == 2:
                results[p]["stderr"] = out[-500:]
    finally:
        sh("git -C /repo checkout -- .")
    json.dump(results, open(f"{d}/check.json", "w"), indent=1)
    for p, r in results.items():
        print(f"{r['status']:8} {prop}-{k} by check {p} {r['seconds']}s {r['first'][:200]}")
    return 0


def keep(prop, k):
    d = f"{wt(prop, k)}/.mut/{k}"
    dst = f"{VERIF}/seeded/{prop}-{k}"
    os.makedirs(dst, exist_ok=True)
    for f in ["patch.diff", "demo.rs", "notes.md"]:
        shutil.copy(f"{d}/{f}", f"{dst}/{f}")
    notes, dest, cmd = parse_notes(d)
    ver = json.load(open(f"{d}/verify.json")) if os.path.exists(f"{d}/verify.json") else {}
    chk = json.load(open(f"{d}/check.json")) if os.path.exists(f"{d}/check.json") else {}
    m = re.search(r"##\s*Needs[^\n]*\n(.*?)(?:\n## |\Z)", notes, re.S)
    needs = " ".join(m.group(1).split())[:700] if m else ""
    m = re.search(r"^#\s*(.+)$", notes, re.M)
    meta = {
        "property": prop,
        "title": m.group(1).strip() if m else "",
        "needs_in_order_to_manifest": needs,
        "demo": {"copy_demo_rs_to": dest, "run": cmd},
        "confirmed_by_me": {
            "existing_suite_with_patch": ver.get("suite_with_patch"),
            "demo_fails_with_patch": ver.get("demo_with_patch_exit", 0) != 0,
            "demo_passes_without_patch": ver.get("demo_without_patch_exit", 1) == 0,
            "how": "tools/seeded.py verify (cargo test --workspace --no-fail-fast --offline in a scratch worktree with the patch applied; demo with and without the patch)",
        },
        "check_result": chk,
    }
    json.dump(meta, open(f"{dst}/meta.json", "w"), indent=1)
    print("kept", dst)
    return 0


if __name__ == "__main__":
    a = sys.argv[1:]
    if len(a) < 3:
        print(__doc__); sys.exit(2)
    props = None
    if "--props" in a:
        props = a[a.index("--props") + 1].split(",")
    sys.exit({"verify": verify, "keep": keep}.get(a[0], lambda p, k: check(p, k, props))(a[1], a[2]))
