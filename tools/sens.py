#!/usr/bin/env python3
"""Sensitivity runner: apply each deliberate property-breaking edit to /repo, run the quick
check of the properties it should break, expect exit 1, and restore /repo.
Never leaves /repo modified: every edit is undone with `git checkout -- <file>`.

usage: tools/sens.py [--only NAME_SUBSTR] [--tier quick] [--file sensitivity/mutations.json]
"""
import json, subprocess, sys, os, time
VERIF = os.path.dirname(os.path.dirname(os.path.abspath(__file__)))
def sh(cmd, **kw):
    return subprocess.run(cmd, shell=True, capture_output=True, text=True, **kw)
def main():
    args = sys.argv[1:]
    only = None; tier = 'quick'; mfile = os.path.join(VERIF, 'sensitivity/mutations.json')
    while args:
        a = args.pop(0)
        if a == '--only': only = args.pop(0)
        elif a == '--tier': tier = args.pop(0)
        elif a == '--file': mfile = args.pop(0)
    muts = json.load(open(mfile))
    if sh('git -C /repo status --porcelain --untracked-files=no').stdout.strip():
        print('refusing: /repo has uncommitted changes'); sys.exit(2)
    results = []
    for m in muts:
        if only and only not in m['name']: continue
        path = os.path.join('/repo', m['file'])
        src = open(path).read()
        if src.count(m['old']) != 1:
            print(f"SKIP {m['name']}: pattern occurs {src.count(m['old'])} times"); results.append((m['name'], 'pattern-mismatch')); continue
        open(path, 'w').write(src.replace(m['old'], m['new']))
        try:
            for prop in m['props']:
                t = time.time()
                r = sh(f'{VERIF}/check {prop} {tier}')
                line = [l for l in r.stdout.splitlines() if l.startswith('VIOLATION')]
                det = [l.strip() for l in r.stdout.splitlines() if l.startswith('  clause=')]
                status = {0: 'MISSED', 1: 'caught', 2: 'harness-error'}.get(r.returncode, str(r.returncode))
                print(f"{status:8} {m['name']:55} {prop} {time.time()-t:5.1f}s {det[0][:160] if det else ''}")
                if r.returncode == 2: print(r.stderr[-600:])
                results.append((m['name'] + ':' + prop, status))
        finally:
            sh(f"git -C /repo checkout -- {m['file']}")
    bad = [r for r in results if r[1] != 'caught']
    print(f"{len(results)-len(bad)}/{len(results)} caught")
    sys.exit(1 if bad else 0)
main()
