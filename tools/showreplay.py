#!/usr/bin/env python3
import json,sys
def strip(x):
    if isinstance(x,dict): return {k:strip(v) for k,v in x.items() if v not in (None,[],False,0,'')}
    if isinstance(x,list): return [strip(v) for v in x]
    return x
for f in sys.argv[1:]:
    d=json.load(open(f))
    print("=====",f)
    print(d['clause'],'|',d['site'],'| occurrences',d['occurrences_in_batch'])
    print(d['detail'][:2500])
    print(json.dumps(strip(d['scenario']))[:2500])
