#!/usr/bin/env python3
"""Run every kept seeded change (/verif/seeded/<id>/patch.diff) against the check of its property
(plus extra checks named in EXTRA) and write seeded/RESULTS.json. /repo is restored after each."""
import json, os, subprocess, sys, time
VERIF = os.path.dirname(os.path.dirname(os.path.abspath(__file__)))
EXTRA = {"C10-2": ["C06"], "C10-4": ["C11"], "C10-5": ["C06"], "C10-9": ["C06"], "C10-15": ["C04"], "C04-5": ["C06"], "C04-20": ["C06"], "C04-27": ["C06"], "C11-5": ["C06"]}
def sh(cmd):
    r = subprocess.run(cmd, shell=True, capture_output=True, text=True)
    return r.returncode, r.stdout + r.stderr
def main():
    rc, out = sh("git -C /repo status --porcelain --untracked-files=no")
    if out.strip():
        print("refusing: /repo has uncommitted changes"); sys.exit(2)
    res = {}
    for d in sorted(os.listdir(f"{VERIF}/seeded")):
        p = f"{VERIF}/seeded/{d}/patch.diff"
        if not os.path.exists(p): continue
        prop = d.split("-")[0]
        rc, out = sh(f"git -C /repo apply {p}")
        if rc != 0:
            res[d] = {"error": "patch does not apply"}; print(d, "patch does not apply"); continue
        try:
            for chk in [prop] + EXTRA.get(d, []):
                t = time.time()
                rc, out = sh(f"{VERIF}/check {chk} quick")
                det = [l.strip() for l in out.splitlines() if l.startswith("  clause=")]
                st = {0: "MISSED", 1: "caught", 2: "harness-error"}.get(rc, str(rc))
                res.setdefault(d, {})[chk] = {"status": st, "seconds": round(time.time() - t, 1), "first": det[0][:300] if det else ""}
                print(f"{st:8} {d} by {chk} {det[0][:150] if det else ''}")
        finally:
            sh("git -C /repo checkout -- .")
    json.dump(res, open(f"{VERIF}/seeded/RESULTS.json", "w"), indent=1)
main()
